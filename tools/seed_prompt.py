#!/usr/bin/env python3
"""Prints the prompt given to a seeding sub-agent: property text + scratch worktree, nothing from /verif."""
import json, sys
pid, wt = sys.argv[1], sys.argv[2]
extra = sys.argv[3] if len(sys.argv) > 3 else ""
p = next(json.loads(l) for l in open('/verif/properties.jsonl') if json.loads(l)['id'] == pid)
files = ", ".join(p.get('anchors', {}).get('files', []))
print(f"""You are helping to evaluate a verification effort for the Rust project mimium-rs (a functional language for sound: parser, type inference, MIR, bytecode VM and WASM backends). You work ONLY inside your own scratch git worktree of the repository at {wt} (never touch /repo or /verif, never read /verif). The sandbox has no network; build with `cargo ... --offline`; use at most 6 parallel jobs (`-j 6`, `--test-threads 6`).

The following semantic property of mimium-rs is supposed to hold:

  {p['title']}
  {p['statement']}

  (Code this is anchored in: {files})

Your task: produce ONE realistic change to the source code of mimium-rs (in the worktree) that BREAKS this property while the project still compiles and the existing test suite still passes entirely. Think of a plausible mistake or 'refactoring' a maintainer could make (an off-by-one, a wrong tie-break, a swapped operand, a missed case, a cursor advanced at the wrong time, shared mutable state, two cooperating sites that each look fine alone). The breakage must need something SPECIFIC to manifest — a particular multi-step sequence of operations, an unusual but legal input, a specific combination of language constructs, a particular interleaving — not something any ordinary program would expose at once. Keep it small (a few lines, at most ~40). Do not touch tests, do not add cfg flags, do not make it depend on environment variables, time or randomness. {extra}

Deliver, in {wt}/SEED_OUT/:
  1. patch.diff — `git diff` of your source change only (no test files), applicable with `git apply` at the repository root.
  2. a demonstration: a self-contained Rust integration test file (or a small program plus instructions) that FAILS with your change and PASSES without it, e.g. a file to be copied to crates/lib/mimium-test/tests/ (that crate has helpers such as mimium_test::run_source_test, run_source_with_plugins, run_wasm_test, run_source_with_scheduler_wasm; state-tree and mimium-lang have their own tests dirs). Save the captured outputs as output_with_change.txt and output_without_change.txt.
  3. meta.json with keys: property ("{pid}"), summary (what the change does), needs (what exactly is required for the breakage to manifest), files_changed, demo_cmd (exact command to run the demonstration from the worktree root), demo_fails_with_change, demo_passes_without_change, suite_passes_with_change (the summary line you observed), observed.

You MUST verify all of this yourself in the worktree:
  - with the change: `cargo build --workspace --offline -j 6` succeeds, and the whole existing suite passes: `cargo nextest run --workspace --no-fail-fast --offline --test-threads 6 --build-jobs 6` (expect 358 tests passed; if nextest is unavailable use `cargo test --workspace --no-fail-fast --offline -j 6`). If any existing test fails, your change is too visible: pick another.
  - with the change the demonstration fails; without it (git stash / git checkout of the source files) the demonstration passes.
Leave the worktree with your change applied and the demonstration file NOT committed. Finish with a short report: the patch, what it needs to manifest, and the exact outputs you observed. Do not remove the worktree.""")
