#!/bin/bash
# Applies every seeded change in turn, runs the quick check of its property, reverts; prints one line per seed.
# (Do not touch /repo or rebuild the harness while this runs.)
cd /verif
for d in seeded/*/; do
  n=$(basename $d); id=${n%%-*}
  out=$(tools/try_seed.sh $n $id quick 3 2>&1)
  rc=$(echo "$out" | grep -o "exit=[0-9]*" | tail -1)
  line=$(echo "$out" | grep "^$id tier" | head -1 | cut -c1-160)
  echo "$n $rc :: $line"
done
