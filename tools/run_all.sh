#!/bin/bash
# usage: run_all.sh <tier> [ids...]   — run checks one after another, print one summary line each
TIER=${1:-quick}; shift
IDS=${@:-C01 C02 C03 C04 C05 C06 C07 C08 C09 C10 C11 C12 C13 C14 C15 C16 C17 C18 C19 C20}
cd "$(dirname "$0")/.."
# under `vp run --with-repo` the snapshot of /repo is at $VP_RUN_REPO: build against it so that edits to /repo
# (seed trials) made while this run is going do not disturb it
if [ -n "${VP_RUN_REPO:-}" ]; then
  sed -i "s#\"/repo/#\"$VP_RUN_REPO/#g" harness/mmv/Cargo.toml
  export VERIF_REPO="$VP_RUN_REPO"
  echo "building against $VP_RUN_REPO"
fi
mkdir -p target
for id in $IDS; do
  s=$(date +%s)
  VERIF_DUMP_FAILS=target/fails-$id-$TIER.jsonl ./check $id --tier $TIER > target/out-$id-$TIER.log 2>&1; rc=$?
  e=$(date +%s)
  echo "$id $TIER exit=$rc wall=$((e-s))s :: $(grep -v '^KNOWN' target/out-$id-$TIER.log | head -1 | cut -c1-220)"
  grep -E "^(machinery|vacuous)" target/out-$id-$TIER.log | head -3
done
