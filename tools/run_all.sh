#!/bin/bash
# usage: run_all.sh <tier> [ids...]   — run checks one after another, print one summary line each
TIER=${1:-quick}; shift
IDS=${@:-C01 C02 C03 C04 C05 C06 C07 C08 C09 C10 C11 C12 C13 C14 C15 C16 C17 C18 C19 C20}
cd "$(dirname "$0")/.."
for id in $IDS; do
  s=$(date +%s)
  VERIF_DUMP_FAILS=target/fails-$id-$TIER.jsonl ./check $id --tier $TIER > target/out-$id-$TIER.log 2>&1; rc=$?
  e=$(date +%s)
  echo "$id $TIER exit=$rc wall=$((e-s))s :: $(grep -v '^KNOWN' target/out-$id-$TIER.log | head -1 | cut -c1-220)"
  grep -E "^(machinery|vacuous)" target/out-$id-$TIER.log | head -3
done
