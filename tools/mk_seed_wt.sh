#!/bin/bash
# usage: mk_seed_wt.sh <name>   — scratch git worktree of /repo HEAD at /tmp/seedwt-<name> for a seeding sub-agent
WT=/tmp/seedwt-$1
git -C /repo worktree remove --force $WT 2>/dev/null
rm -rf $WT
git -C /repo worktree add -q --detach $WT HEAD && mkdir -p $WT/SEED_OUT && echo $WT
