#!/bin/bash
# usage: mk_seed_wt.sh <name>   — scratch git worktree of /repo HEAD at /tmp/seedwt-<name> for a seeding sub-agent
# (the debug build output of /repo is copied in so that the registry dependencies need no rebuild)
WT=/tmp/seedwt-$1
git -C /repo worktree remove --force $WT 2>/dev/null
rm -rf $WT
git -C /repo worktree add -q --detach $WT HEAD && mkdir -p $WT/SEED_OUT && { [ -d /repo/target/debug ] && [ "$(du -s /repo/target/debug | cut -f1)" -lt 10000000 ] && mkdir -p $WT/target && cp -r /repo/target/debug $WT/target/debug; } ; echo $WT
