#!/bin/bash
# usage: confirm_seed.sh <seed-dir>   (contains patch.diff, meta.json with demo_cmd, demo files)
# In a scratch worktree of /repo HEAD (/tmp/confirm): apply patch -> suite must pass -> demo must FAIL;
# revert patch -> demo must PASS. Writes <seed-dir>/confirm.log. demo_cmd may refer to SEED_OUT/ (symlinked).
SEED="$(cd "$1" && pwd)"
WT=/tmp/confirm
if [ ! -d $WT ]; then git -C /repo worktree add -q --detach $WT HEAD; fi
cd $WT && git checkout -q --detach $(git -C /repo rev-parse HEAD) && git checkout -- . && git clean -fdq -e target -e SEED_OUT
rm -f SEED_OUT; ln -s "$SEED" SEED_OUT
LOG="$SEED/confirm.log"; : > "$LOG"
echo "repo HEAD $(git rev-parse --short HEAD)" >> "$LOG"
if ! git apply "$SEED/patch.diff" 2>>"$LOG"; then echo "APPLY_FAILED" >> "$LOG"; exit 1; fi
echo "== suite with change" >> "$LOG"
cargo nextest run --workspace --no-fail-fast --offline --test-threads 8 --tool-config-file pb:/w/lib/nextest.toml --profile pb 2>&1 | grep -E "Summary|FAIL |error(\[|:)" | head -20 >> "$LOG"
DEMO=$(python3 -c "import json,sys; print(json.load(open('$SEED/meta.json'))['demo_cmd'])")
DEMO=$(echo "$DEMO" | sed 's/ -j 6//g; s/--build-jobs 6//g')
echo "== demo with change: $DEMO" >> "$LOG"
( eval "$DEMO" ) 2>&1 | grep -E "test result|Summary|panicked|FAILED|passed" | head -12 >> "$LOG"
git checkout -- . ; git clean -fdq -e target -e SEED_OUT
echo "== demo without change" >> "$LOG"
( eval "$DEMO" ) 2>&1 | grep -E "test result|Summary|panicked|FAILED|passed" | head -12 >> "$LOG"
git checkout -- . ; git clean -fdq -e target -e SEED_OUT
echo "done" >> "$LOG"
cat "$LOG"
