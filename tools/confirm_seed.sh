#!/bin/bash
# usage: confirm_seed.sh <seed-dir containing patch.diff, meta.json, demo/> <name>
# Confirms in a scratch worktree (/tmp/confirm): patch applies, workspace builds, the repository's
# suite passes with it, and records the outcome in <seed-dir>/confirm.log. Demo is run by hand/with demo_cmd.
SEED="$1"; NAME="$2"
WT=/tmp/confirm
if [ ! -d $WT ]; then git -C /repo worktree add -q --detach $WT HEAD; fi
cd $WT && git checkout -q --detach $(git -C /repo rev-parse HEAD) && git checkout -- . && git clean -fdq -e target
LOG="$SEED/confirm.log"; : > "$LOG"
if ! git apply "$SEED/patch.diff" 2>>"$LOG"; then echo "APPLY_FAILED" >> "$LOG"; exit 1; fi
echo "== suite with change" >> "$LOG"
cargo nextest run --workspace --no-fail-fast --offline --test-threads 8 --tool-config-file pb:/w/lib/nextest.toml --profile pb 2>&1 | grep -E "Summary|FAIL|error(\[|:)" | head -20 >> "$LOG"
git checkout -- . 
echo "done" >> "$LOG"
