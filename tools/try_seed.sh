#!/bin/bash
# usage: try_seed.sh <seed-name> <Cxx> [tier] [lines] — apply a seeded change to /repo, run the check, revert.
# The evidence and replay files written by the seeded run are discarded afterwards (they describe a broken tree).
S=/verif/seeded/$1; ID=$2; TIER=${3:-quick}
cd /repo && git apply $S/patch.diff || { echo APPLY FAILED; exit 9; }
cd /verif && ./check $ID --tier $TIER | cut -c1-400 | head -${4:-8}; RC=${PIPESTATUS[0]}
cd /repo && git checkout -- .
cd /verif && git checkout -- evidence/$ID.json replays 2>/dev/null; git clean -fdq replays
echo "exit=$RC"
