#!/usr/bin/env python3
"""Writes MANIFEST.json from the table below (single source of truth for the interface)."""
import json, subprocess

CHECKS = {
 "C08": dict(
   technique="bounded-exhaustive enumeration of all ordered layout pairs through the real diff/apply functions (explicit-state, shape E)",
   text="Every ordered pair of state layouts below the size bound is run through state_tree::build_state_storage_patch_plan and apply_state_storage_patch_plan on tagged storage; well-formedness clauses are evaluated on every pair and the survival clause on every pair that a script of <=2 subtree deletions/insertions explains. Exhaustive below the bound, nothing sampled.",
   note="Trusts the harness's own layout enumerator, address computation and edit-script search (independent of state-tree's). Layouts above the bound (leaf sizes other than 1/2, arity>3, >4 leaves) are not covered.",
   design="4/C08"),
}
CHECKS.update({
 "C04": dict(
   technique="bounded-exhaustive enumeration of token sequences, deviation-1 token edits/truncations of corpus files and nesting ladders through the real front end and compile entry points (shape E)",
   text="Every sequence of <=3 (thorough 4) token spellings over the full lexer alphabet, every single-token edit and byte truncation of the smallest corpus files, and every nesting depth 1..64 of 26 bracket/recursion ladders is run through tokenize, parse_to_expr, typecheck_with_module_info (the language-server path) and, on the smaller sub-space, emit_bytecode/emit_wasm, in crash-isolated workers on a 2 MiB stack with a watchdog; panics, aborts, stack overflows, hangs, Ok-on-erroneous-text and diagnostic spans outside the text or off character boundaries are failures.",
   note="Bounds: sequence length, the stated nesting bound B=64 on a 2 MiB stack in the harness profile, edit distance 1. Longer or differently shaped texts are not covered.",
   design="4/C04"),
 "C13": dict(
   technique="bounded-exhaustive enumeration of all strings over a 30-character alphabet, token-spelling concatenations and corpus truncations through tokenize/preparse/parse_cst (shape E)",
   text="For every string up to the length bound the token tiling, the CST leaf sequence and the trivia attachment are compared with what the text itself dictates; exhaustive below the bound.",
   note="Alphabet chosen to reach every lexical rule and two-character look-ahead; other characters only through corpus truncations.",
   design="4/C13"),
 "C20": dict(
   technique="bounded-exhaustive enumeration of interpreter values, types and argument lists through the real serialize/deserialize functions (shape E)",
   text="Every value up to the depth/width bound over a leaf menu containing every representable and every unrepresentable kind, and every argument list of length 0..2 with every type of a depth-2 type menu, is encoded and decoded; the result is compared structurally (numbers by bit pattern), and values containing an unrepresentable part must be refused.",
   note="Host and plugin share the interner (as the loader arranges), so node ids cross as keys. No DLL boundary is crossed; the encoding functions the loader calls are what is checked.",
   design="4/C20"),
})
CHECKS.update({
 "C01": dict(
   technique="bounded-exhaustive enumeration of builder-operation sequences over the program families (expressions, state layout, closures, aggregates, tasks, numeric match, recursive variants) and of every single-token mutant of every shipped .mmm file, differential execution of the two real pipelines (shape E)",
   text="Every program of the families below the operation bound is compiled and run sample by sample on the bytecode VM and on the WASM backend (the CLI's runtime path) with the same input streams, scheduler installed and not installed; accept/reject, channel counts and every output word are compared bitwise with all NaNs identified. A second part takes every shipped .mmm file (library, examples, test fixtures; at most 4000 bytes) under its real path, unmutated and under every single token mutation of a menu (a number literal replaced by 0.0/1.0/0.5/2.0, an arithmetic operator by each other one, a comparison by two others, && and || exchanged), and compares the two backends in the same way.",
   note="Families: expressions over an edge-value domain incl. NaN/inf/-0, state layout, closures (incl. local letrec, stateful higher-order functions), aggregates, scheduled tasks incl. tasks whose effects do not commute, numeric match incl. repeated and fractional literals, recursive variant types in three payload shapes. Corpus mutants of files with recursion are not generated (a mutated bound makes the recursion unbounded). The quick tier runs every file unmutated and every 8th mutant of the files up to 1200 bytes. Programs above the bounds and plugin-specific functions are not covered.",
   design="4/C01"),
 "C02": dict(
   technique="bounded-exhaustive enumeration of builder-operation sequences over FX/FS/FC/FA, compared with a reference interpreter written in the harness (shape E)",
   text="Every program of the families below the operation bound is run on the VM and on the harness's own call-by-value interpreter with state keyed by call path; output streams must be numerically equal at every sample and channel for every input stream.",
   note="Trusts the reference interpreter (about 400 lines, boring by construction) and the builder's printer; constructs whose meaning the statement leaves open are outside the alphabet (reported as reference_undefined, not as failures).",
   design="4/C02"),
})
CHECKS.update({
 "C05": dict(
   technique="bounded-exhaustive enumeration of builder-operation sequences over FS/FC/FA, run-time state-access trace (cfg-guarded hooks) checked against the published layout on every sample (shape E)",
   text="Every program of the state-layout, closure and aggregate families below the bound is run on VM and WASM with the state-access trace on; every self/mem/delay access must coincide in offset, size and kind with a cell of the published dsp state skeleton and lie inside the storage, the cursor must be 0 after every dsp call, and VM and WASM state words must agree after every sample.",
   note="Relies on hooks in vm.rs / wasm.rs (additive, cfg mimium_verif). Closure-private storages are checked for bounds only. Input streams are chosen so that both arms of generated conditionals run.",
   design="4/C05"),
})
CHECKS.update({
 "C06": dict(
   technique="explicit-state exploration of swap histories over the real runtime: all histories with <= T steps and <= s same-text swaps, executed by re-execution from the initial state (shape S)",
   text="For every stateful program of the families below the bound, every history of T steps with swaps to a fresh compilation of the same source at every tuple of split points (including two swaps with no step between) is executed on the real VM runtime, and every single-swap history on the real WASM runtime with both payload variants the CLI prepares; every step's outputs and state words must equal the uninterrupted run's.",
   note="Swaps go through mimium-cli's real file runner (cfg-guarded hook: FileRunner::recompile_file_inprocess on the VM, FileRunner::prepare_hot_swap_wasm_payload on WASM); only the CLI's compiler subprocess is replaced by an in-process compilation. Bounds: T steps, s swaps, program size.",
   design="4/C06"),
 "C07": dict(
   technique="explicit-state exploration of (old program, edit, swap time) histories with compile-fault injection over the real runtimes, differential oracle against uninterrupted and fresh runs (shape S)",
   text="Programs are fixed-arity tuples of independent stateful voices; for every old program, slot and edit (insert, delete, replace, constant change, nesting, non-compiling text) and every swap time the real runtime is driven through run / compile / hot-swap / run, and each channel is compared with the uninterrupted run of the old program (untouched sites), a fresh run started at the swap time (new sites) or the closed form of a counter (changed constant); a non-compiling edit must be rejected and change nothing. Two further parts: edits inside a function reached through a chain of 1-4 stateful calls, and batch edits that remove two sites before an untouched one and insert two after it in one swap ((a, b, X) -> (X, c, d) and the mirror image), where X's channel must continue.",
   note="Also explored: edits inside a function reached through a chain of stateful calls, batch edits that move a site by two positions, and edits that add or remove function definitions around an unchanged dsp. Any order-preserving pairing among identically written siblings is accepted. Expected values come from other runs of the same runtime, never from hand-written numbers. Recompilation and payload preparation are the CLI file runner's own (hook), except its compiler subprocess.",
   design="4/C07"),
})
CHECKS.update({
 "C11": dict(
   technique="bounded-exhaustive enumeration of task programs (all scheduling times, insertion orders, periods, chains up to the task bound) run on the real VM and WASM schedulers and compared with a sorted-multiset reference at every sample (shape S)",
   text="Every program with up to k tasks, each first scheduled from global scope at one of four times (equal and fractional times included), chained from the previous task, or scheduled by dsp itself at sample 2, and rescheduling itself with one of four periods, is run on both runtimes with the scheduler plugin; after every sample each task's run counter and the time it observed must equal the reference in which a task scheduled for w runs exactly once before dsp of sample floor(w). A second family binds two closure values inside a function and issues every sequence of requests over 2 closures x 4 times, so that one closure value is also requested several times for one sample.",
   note="Per-task counter cells make same-sample ordering unobservable. dsp schedules at one fixed sample only.",
   design="4/C11"),
})
CHECKS.update({
 "C03": dict(
   technique="bounded-exhaustive enumeration of family programs and of all their deviation-1 type-changing mutants, compiled and run on both backends in crash-isolated workers with cfg-guarded bounds checks (shape E)",
   text="Every program of the families below the bound and every near-miss mutant of it (each atom replaced by each of nine differently typed texts, plus whole-program mutants such as a stateful call at global scope or a delay with non-literal size) is compiled on VM and WASM; whatever the compile entry points accept must run global initialisation and N dsp calls without panic, abort, signal, hang or a bounds-hook report, and return the declared number of words. Rejection with a diagnostic is always fine.",
   note="Out-of-bounds accesses of the VM's unchecked paths are detected by the additive bounds hooks (state storage, globals, upvalues, closure handles, delay sizes); stack accesses are covered only as far as they panic or crash the worker.",
   design="4/C03"),
})
CHECKS.update({
 "C12": dict(
   technique="bounded-exhaustive enumeration of closure / boxed-variant / task / aggregate programs run on the real VM with the live-closure and heap-object counts sampled after every dsp call (shape E)",
   text="Every program of the families below the bound runs 3N samples on the VM; the number of live closures and of heap objects after sample N, 2N and 3N must be equal, and no handle-validity hook may fire (use after release).",
   note="VM only (its closure and heap storages are the counters the property names). Growth is detected as inequality at N/2N/3N, so a leak slower than one object per N samples within 3N samples is not seen.",
   design="4/C12"),
})
CHECKS.update({
 "C16": dict(
   technique="bounded-exhaustive enumeration of (program, single transformation) pairs: every identifier x every adversarial name, every expression node x {1,2,21} parentheses, whole-program layout/comment variants, single-gap layout deviations (a block comment at every token boundary; inside round/square brackets also a line break and a line comment), every agreeing annotation; differential execution base vs transformed (shape E)",
   text="For every program of the families below the bound, every deviation-1 renaming, parenthesisation, layout/comment change and agreeing type annotation is applied by the harness to its own AST or printed text; base and transformed program must agree on accept/reject and produce bit-identical outputs on the VM (every 16th case also on WASM).",
   note="Transformations are the harness's own; two simultaneous transformations are not explored. Annotations are added only where the builder knows the type is float.",
   design="4/C16"),
})
CHECKS.update({
 "C17": dict(
   technique="bounded-exhaustive enumeration of module programs: all visibility combinations of a depth-2 module tree x all reference forms and referrer positions, and all programs of a 4-level same-name module chain (definition subsets x visibilities x probe levels x reference kinds x source orders x staging variants), compared with an independent visibility / resolution rule (shape E)",
   text="Every combination of `pub` on the members of a two-level module tree is combined with every reference form (qualified path, use, multi-import, wildcard, private/pub/chained/wildcard re-export, module import, relative path, from root, sibling, child and parent, shadowing by local and root definitions); the harness computes admissibility with its own Rust-like rule; an inadmissible reference must be rejected and an accepted one must return the constant of the definition its path denotes. A second family nests modules root > a > b > c and defines the same member name at every subset of the four levels (each returning its own constant, with and without `pub`, inner modules with and without `pub`, members before or after the nested module); a probe at each level refers to the name unqualified, by absolute path and by a path relative to its module, in a plain program, in a program with `#stage` sections and through a quote/splice: 58 368 programs, each judged by the rule 'innermost enclosing definition' / 'the path's target, visible iff every private step encloses the referrer'.",
   note="Module depth 2 (forms) and 3 (chain), one member name per chain, sibling modules named so that their names are string prefixes of each other. Rejecting an admissible reference is not counted as a failure; accepting a reference that denotes no definition is.",
   design="4/C17"),
})
CHECKS.update({
 "C09": dict(
   technique="bounded-exhaustive enumeration of (family program, expression node, staging mode) triples - every node of every program below the bound quoted and spliced back - and of (stage-1 expression, staging context) pairs and lifted numeric computations; differential execution of the staged program against its expansion (the untransformed program, or a template written by the harness), on both backends (shape E)",
   text="Every expression of a menu covering each stage-1 construct is placed in every staging context (quote/splice, identity macro, macro-stage let spliced once and twice, f!(a) vs $(f(a)), nested contexts, two-argument and composed macros, code-building recursion) and compared bit for bit, for N samples on VM and WASM, with the hand-expanded program; numbers computed at the macro stage and lifted must equal the f64 the harness computes. In addition every program of the state-layout, closure and aggregate families below the bound is taken with each single expression node (operand, argument, callee, condition, branch, let value, lambda, block, member, mem/delay operand) quoted and spliced back on the spot in three ways (`$(`(e))`, through an identity macro, through a macro that let-binds the code value): the result must behave exactly like the untransformed program (VM on every case; WASM on every 8th in the quick tier, on all in the thorough tier).",
   note="Menus are finite (21 expressions x 9 contexts, nesting depth 2; 102 placeholder-pipe expressions `a ||> f(_, b)` nested to depth 2, each against its hand expansion, plain and quoted); the family part is deviation-1 (one quoted node per program). Expansions are the harness's templates or the untransformed program, never produced by the compiler.",
   design="4/C09"),
 "C10": dict(
   technique="bounded-exhaustive enumeration of (macro body, binder naming, spliced argument, use site) combinations; metamorphic comparison of each program with its alpha-renamed variant (shape E)",
   text="Every combination of a macro body (each binder kind), a binder naming that collides with names in play, a spliced argument mentioning each such name and a use site binding the same names is compared with the same program whose macro binders are renamed to fresh names: acceptance and outputs must be identical. A second part defines the macro inside a module (`mod m`, and `mod m { mod n }`) and names the binders of its quoted code like a sibling member, the macro itself, the module, a member of the parent module, a root-level function or dsp.",
   note="Metamorphic oracle, no expected values. Namings that would make the renaming capture a same-stage reference are excluded (not alpha-variants).",
   design="4/C10"),
})
CHECKS.update({
 "C15": dict(
   technique="explicit-state exploration of compilation histories in one process (all sequences of <= d compilations over a program set built to exercise every name/hash-keyed table), each observation compared with fresh-process observations (shape S)",
   text="Every history of up to d compilations over twenty programs (type declarations, aliases, modules, macros, destructuring patterns inside quoted code, locally bound values of a recursive sum type, records, the scheduler, programs re-using other programs' short names, one type-alias name declared with different shapes in two modules) is executed in a worker process, on a thread started under one of a stated set of HashMap seeds; the last compilation's bytecode listing, WASM bytes, state layout and VM/WASM outputs must equal those of an immediate recompilation and those obtained in fresh processes, whatever was compiled before.",
   note="The harness owns the HashMap seeds (it defines getrandom, which std's RandomState draws from): histories run under seed indices 1..5 (thorough 1..11) and fresh process k under seed index k, so the explored seeds are stated, not drawn at random, and a violation replays exactly; the other 2^128 seeds are not explored. The MIR text is not compared (it embeds interner ids).",
   design="4/C15"),
})
CHECKS.update({
 "C14": dict(
   technique="bounded-exhaustive enumeration of syntactically valid programs (families, layout/comment variants, single-gap comment and line-break deviations, hand-written production coverage, corpus) x line widths through the real formatter, with parse-back, comment and fixed-point oracles (shape E)",
   text="Every program of the families below the bound in ten layout/comment variants (among them a block comment at the start, and at the end, of every line), thirty hand-written texts covering the remaining productions (match, type declarations, typed parameters and lambdas, record patterns, modules, use lists, ...) in the same variants, every corpus file that parses, and every single-gap deviation (a block comment at every token boundary; inside parentheses and square brackets also a line break and a line comment) of every one-operation program and of every text, is formatted at six widths; the output must parse without errors to the same AST (spans erased), contain the same comments in the same order, and be a fixed point of the formatter.",
   note="AST equality uses mimium's own structural print with spans erased. Indent size fixed at the default. Eleven formatter defects found by this check were repaired in the repository (fix commits 2ea57d3..7f555aa); no finding is open for it.",
   design="4/C14"),
})
CHECKS.update({
 "C19": dict(
   technique="stateless exploration of thread interleavings of the real compiler under a hand-rolled controlled (baton) scheduler with scheduling points (cfg-guarded hooks) before every access to process-global shared state; preemption-bounded (0, 1, partially 2); every schedule executed in a fork of one frozen process state with harness-owned hash seeds, so schedules replay exactly (shape S)",
   text="Two OS threads each compile and run one program from a menu built to collide (identical sources, shared identifiers, syntax error, type error, macro expansion, a 64 KiB identifier, type declarations, two macro programs whose main-stage code goes through the staging translation with a nested resp. flat tuple let, a program importing library modules from files, two programs that include the same file, which in turn includes a larger one, two programs whose differently named modules each declare a type alias of one name); only one thread runs at a time and control can change hands only at scheduling points placed before every use of the interner, the macro-file environment variable and the diagnostics file cache. Both serial orders and every single preemption (quick: at every s-th point with s = 16, or more for long jobs so that a pair has at most ~2400 schedules; thorough: at every point, plus a sparse second preemption) are executed; in every schedule each thread must obtain exactly the diagnostics and outputs it obtains alone, with no panic and no deadlock.",
   note="Sequentially consistent interleavings at hook granularity only; loom/shuttle cannot intercept std::sync inside mimium-lang and do not finish on ~7000 lock operations per job, hence the hand-rolled scheduler. Unsynchronised memory effects (the transmuted &str from Symbol::as_str vs. reallocation of the interner buffer) cannot be observed by a cooperative scheduler; the thorough tier therefore re-executes the quick-bound schedule set under an AddressSanitizer build (nightly, offline; self-tested on a probe of exactly that pattern; evidence in C19-asan.json), which reports such an access if an explored schedule performs it. Each schedule runs in a forked copy of the warmed-up worker with getrandom interposed (VERIF_DET_RANDOM), so scheduling-point numbers are exact and a violation replays point for point.",
   thorough_cmd="./check C19 --tier thorough && ./check C19 --asan",
   design="4/C19"),
})
CHECKS.update({
 "C18": dict(
   technique="bounded-exhaustive enumeration of family programs through emit_rust, rustc and execution, differential against the VM (shape E)",
   text="Every program of the tier's list (expressions thinned so that every operator and builtin occurs, and all state-layout, closure, aggregate and task programs below the bound) that the VM runs is passed to emit_rust; what is not refused is compiled with rustc (24 modules per invocation, build failures bisected) and run with a host whose `now` is the sample index; outputs must equal the VM's bit for bit.",
   note="rustc cost keeps this bound the smallest of all checks. The generated program's host supplies the math builtins the transpiler delegates to call_ext.",
   design="4/C18"),
})
NOT_YET = {}

def main():
    props = [json.loads(l) for l in open('/verif/properties.jsonl')]
    checks = []
    na = []
    for p in props:
        pid = p['id']
        if pid in CHECKS:
            c = CHECKS[pid]
            checks.append({
                "property_id": pid,
                "quick_cmd": f"./check {pid} --tier quick",
                "thorough_cmd": c.get('thorough_cmd', f"./check {pid} --tier thorough"),
                "evidence_file": f"/verif/evidence/{pid}.json",
                "replay_cmd_template": f"./check {pid} --replay {{path}}",
                "engine": "mmv",
                "level_claimed": {"category": "model_checking", "text": c['text'], "design_ref": c['design']},
                "level_note": c['note'],
                "technique": c['technique'],
            })
        else:
            na.append({"property_id": pid, "reason": NOT_YET.get(pid, "check not built yet in this session (design in DESIGN.md section 4); not claimed")})
    hooks_commits = subprocess.run(['git','-C','/repo','log','--format=%H %s'],capture_output=True,text=True).stdout.splitlines()
    hook_shas = [l.split()[0] for l in hooks_commits if ' verif-hook:' in l or l.split(' ',1)[1].startswith('verif-hook')]
    m = {
      "version": 1,
      "setup_cmd": "cd /verif/harness && CARGO_NET_OFFLINE=true cargo build --profile verif",
      "hooks": {
        "guard": "mimium_verif",
        "enable": "RUSTFLAGS=--cfg mimium_verif via /verif/harness/.cargo/config.toml (harness target dir /verif/target only)",
        "baseline_off_cmd": "/verif/baseline_off.sh",
        "source_commits": hook_shas,
        "add_only": True,
      },
      "engines": [
        {"name": "mmv", "path": "/verif/harness/mmv", "serves_properties": sorted(CHECKS.keys()),
         "kind_free_text": "Rust driver/worker explorer: enumerates a bounded space by index, runs the real mimium-rs code on every element in crash-isolated worker processes, evaluates the oracle on each, writes evidence"},
      ],
      "checks": checks,
      "not_applicable": na,
      "notes": "All checks: exit 0 held / 1 VIOLATION / 2 machinery. Known findings: /verif/known_findings.json. Seeded changes: /verif/seeded/.",
    }
    json.dump(m, open('/verif/MANIFEST.json','w'), indent=1)
    print("checks:", [c['property_id'] for c in checks], "na:", len(na))
main()
