#!/bin/bash
# Runs the repository's own pinned suite with the verification guard OFF
# (no --cfg mimium_verif; the repository's own target directory).
cd /repo
unset RUSTFLAGS
if command -v cargo-nextest >/dev/null 2>&1 && [ -f /w/lib/nextest.toml ]; then
  exec cargo nextest run --workspace --no-fail-fast --tool-config-file pb:/w/lib/nextest.toml --profile pb --test-threads 8 --offline
else
  exec cargo test --workspace --no-fail-fast --offline
fi
