//! The harness's own program representation: AST, printer to mimium source text and a
//! deliberately boring reference interpreter (DESIGN §3.1/§3.2).  mimium's parser is not in the
//! trusted path of the oracle: programs are *built* here and only printed for the subject.

use std::cell::RefCell;
use std::collections::HashMap;
use std::rc::Rc;

pub type Site = u32;

#[derive(Clone, Debug, PartialEq)]
pub enum E {
    Num(f64),
    Var(String),
    Now,
    Sr,
    SelfV,
    Neg(Box<E>),
    Bin(&'static str, Box<E>, Box<E>),
    /// builtin math function
    Math(&'static str, Vec<E>),
    /// call of a named top-level function (or of a variable holding a function value)
    Call(String, Vec<E>, Site),
    /// call of an arbitrary callee expression
    CallE(Box<E>, Vec<E>, Site),
    /// call with a parameter pack: `f({k = v, ..})`; parameters not named take their default value
    CallPack(String, Vec<(String, E)>, Site),
    If(Box<E>, Box<E>, Box<E>),
    Block(Vec<S>, Option<Box<E>>),
    Lambda(Vec<String>, Box<E>),
    Tuple(Vec<E>),
    Proj(Box<E>, usize),
    Record(Vec<(String, E)>),
    Field(Box<E>, String),
    Mem(Box<E>, Site),
    Delay(f64, Box<E>, Box<E>, Site),
    /// array literal `[a, b, c]`
    Array(Vec<E>),
    /// `arr[i]` (the language does not fix the meaning of an index outside 0..len or a fractional one; the
    /// reference interpreter answers *undefined* for arrays altogether, the implementations are compared with each other)
    Index(Box<E>, Box<E>),
    /// `a |> f`
    Pipe(Box<E>, Box<E>, Site),
    /// redundant parentheses (layout only)
    Paren(Box<E>),
    /// raw source text (near-miss mutants; no reference semantics)
    Raw(String),
}

#[derive(Clone, Debug, PartialEq)]
pub enum Pat {
    Var(String),
    Tuple(Vec<Pat>),
    /// `{a = p, b = q}`: fields by name, in any order, possibly a subset of the record's fields
    Record(Vec<(String, Pat)>),
}

#[derive(Clone, Debug, PartialEq)]
pub enum S {
    Let(Pat, E),
    /// `letrec f = |..| ..` (a local recursive function)
    LetRec(String, E),
    Assign(String, E),
    Expr(E),
}

#[derive(Clone, Debug, PartialEq)]
pub enum Shape {
    F,
    T(Vec<Shape>),
}
impl Shape {
    pub fn words(&self) -> usize {
        match self {
            Shape::F => 1,
            Shape::T(v) => v.iter().map(|s| s.words()).sum(),
        }
    }
    pub fn zero(&self) -> V {
        match self {
            Shape::F => V::F(0.0),
            Shape::T(v) => V::T(v.iter().map(|s| s.zero()).collect()),
        }
    }
}

#[derive(Clone, Debug, PartialEq)]
pub struct FnDef {
    pub name: String,
    pub params: Vec<(String, Option<E>)>,
    pub body: E,
    /// shape of the return value (used to zero-initialise `self`)
    pub ret: Shape,
}

#[derive(Clone, Debug, PartialEq)]
pub enum Item {
    Fn(FnDef),
    Let(Pat, E),
}

#[derive(Clone, Debug, PartialEq, Default)]
pub struct Prog {
    pub items: Vec<Item>,
}

// ------------------------------------------------------------------ helpers to build

pub fn num(x: f64) -> E {
    E::Num(x)
}
pub fn var(s: &str) -> E {
    E::Var(s.to_string())
}
pub fn bin(op: &'static str, a: E, b: E) -> E {
    E::Bin(op, Box::new(a), Box::new(b))
}
pub fn call(f: &str, args: Vec<E>, site: Site) -> E {
    E::Call(f.to_string(), args, site)
}
pub fn iff(c: E, t: E, e: E) -> E {
    E::If(Box::new(c), Box::new(t), Box::new(e))
}
pub fn let_(n: &str, e: E) -> S {
    S::Let(Pat::Var(n.to_string()), e)
}
pub fn block(ss: Vec<S>, e: E) -> E {
    E::Block(ss, Some(Box::new(e)))
}

/// fresh site ids
#[derive(Default, Clone)]
pub struct Sites(pub u32);
impl Sites {
    pub fn next(&mut self) -> Site {
        self.0 += 1;
        self.0
    }
}

// ------------------------------------------------------------------ printer

pub fn fmt_num(x: f64) -> String {
    if x.is_nan() {
        return "(0.0/0.0)".into();
    }
    if x.is_infinite() {
        return if x > 0.0 { "(1.0/0.0)".into() } else { "(-1.0/0.0)".into() };
    }
    if x < 0.0 || (x == 0.0 && x.is_sign_negative()) {
        return format!("(-{})", fmt_num(-x));
    }
    let s = format!("{x:?}");
    if s.contains('e') || s.contains('E') {
        // the tokenizer has no exponent syntax: print positional
        let t = format!("{x:.1}");
        if t.parse::<f64>().ok() == Some(x) {
            return t;
        }
        return format!("{x:.340}").trim_end_matches('0').to_string() + "0";
    }
    s
}

fn is_atom(e: &E) -> bool {
    matches!(
        e,
        E::Var(_) | E::Now | E::Sr | E::SelfV | E::Call(..) | E::CallPack(..) | E::Math(..) | E::Tuple(_) | E::Mem(..) | E::Delay(..) | E::Paren(_) | E::Block(..) | E::Record(_) | E::Array(_) | E::Index(..)
    ) || matches!(e, E::Num(x) if *x >= 0.0 && !x.is_nan() && x.is_finite() && !(*x == 0.0 && x.is_sign_negative()))
}
fn pa(e: &E, ind: usize) -> String {
    if is_atom(e) { pe(e, ind) } else { format!("({})", pe(e, ind)) }
}
fn pbranch(e: &E, ind: usize) -> String {
    if matches!(e, E::Paren(_)) {
        // explicitly requested redundant parentheses are printed as they are (C16)
        return pe(e, ind);
    }
    let s = pa(e, ind);
    if s.starts_with('(') || s.starts_with('-') || s.starts_with('|') { format!("{{ {} }}", pe(e, ind)) } else { s }
}
fn pad(ind: usize) -> String {
    "  ".repeat(ind)
}
pub fn ppat(p: &Pat) -> String {
    match p {
        Pat::Var(v) => v.clone(),
        Pat::Tuple(ps) => format!("({})", ps.iter().map(ppat).collect::<Vec<_>>().join(",")),
        Pat::Record(fs) => format!("{{{}}}", fs.iter().map(|(k, q)| format!("{k} = {}", ppat(q))).collect::<Vec<_>>().join(", ")),
    }
}
pub fn ps(s: &S, ind: usize) -> String {
    match s {
        S::Let(p, e) => format!("let {} = {}", ppat(p), pe(e, ind)),
        S::LetRec(n, e) => format!("letrec {n} = {}", pe(e, ind)),
        S::Assign(n, e) => format!("{n} = {}", pe(e, ind)),
        S::Expr(e) => pe(e, ind),
    }
}
pub fn pe(e: &E, ind: usize) -> String {
    match e {
        E::Num(x) => fmt_num(*x),
        E::Var(v) => v.clone(),
        E::Now => "now".into(),
        E::Sr => "samplerate".into(),
        E::SelfV => "self".into(),
        E::Neg(a) => format!("-{}", pa(a, ind)),
        E::Bin(op, a, b) => format!("{} {op} {}", pa(a, ind), pa(b, ind)),
        E::Math(f, args) => format!("{f}({})", args.iter().map(|a| pe(a, ind)).collect::<Vec<_>>().join(", ")),
        E::Call(f, args, _) => format!("{f}({})", args.iter().map(|a| pe(a, ind)).collect::<Vec<_>>().join(", ")),
        E::CallE(f, args, _) => format!("{}({})", pa(f, ind), args.iter().map(|a| pe(a, ind)).collect::<Vec<_>>().join(", ")),
        E::CallPack(f, fields, _) => {
            if fields.is_empty() {
                format!("{f}({{..}})")
            } else {
                format!("{f}({{{}}})", fields.iter().map(|(k, v)| if k == ".." { "..".to_string() } else { format!("{k} = {}", pe(v, ind)) }).collect::<Vec<_>>().join(", "))
            }
        }
        // `if (c) (e)` would be read as the call `(c)(e)`: a then-branch that starts with a parenthesis goes into a block
        // an empty block as the else arm stands for "no else" (a conditional statement of unit type)
        E::If(c, t, el) if matches!(&**el, E::Block(ss, None) if ss.is_empty()) => format!("if ({}) {}", pe(c, ind), pbranch(t, ind)),
        E::If(c, t, el) => format!("if ({}) {} else {}", pe(c, ind), pbranch(t, ind), pbranch(el, ind)),
        E::Block(ss, r) => {
            let mut o = String::from("{\n");
            for s in ss {
                o.push_str(&pad(ind + 1));
                o.push_str(&ps(s, ind + 1));
                o.push('\n');
            }
            if let Some(r) = r {
                o.push_str(&pad(ind + 1));
                o.push_str(&pe(r, ind + 1));
                o.push('\n');
            }
            o.push_str(&pad(ind));
            o.push('}');
            o
        }
        E::Lambda(ps_, b) => format!("|{}| {}", if ps_.is_empty() { " ".to_string() } else { ps_.join(",") }, pa(b, ind)),
        // a one-element tuple needs its trailing comma
        E::Tuple(es) if es.len() == 1 => format!("({},)", pe(&es[0], ind)),
        E::Tuple(es) => format!("({})", es.iter().map(|a| pe(a, ind)).collect::<Vec<_>>().join(", ")),
        E::Proj(a, i) => format!("{}.{i}", pa(a, ind)),
        E::Array(es) => format!("[{}]", es.iter().map(|a| pe(a, ind)).collect::<Vec<_>>().join(", ")),
        E::Index(a, i) => format!("{}[{}]", pa(a, ind), pe(i, ind)),
        // a first field named "<-" holds the record being updated: `{base <- a = e, ..}`
        E::Record(fs) if fs.first().map(|(k, _)| k == "<-").unwrap_or(false) => {
            format!("{{{} <- {}}}", pe(&fs[0].1, ind), fs[1..].iter().map(|(k, v)| format!("{k} = {}", pe(v, ind))).collect::<Vec<_>>().join(", "))
        }
        E::Record(fs) => format!("{{{}}}", fs.iter().map(|(k, v)| format!("{k} = {}", pe(v, ind))).collect::<Vec<_>>().join(", ")),
        E::Field(a, f) => format!("{}.{f}", pa(a, ind)),
        E::Mem(a, _) => format!("mem({})", pe(a, ind)),
        E::Delay(n, x, t, _) => format!("delay({}, {}, {})", fmt_num(*n), pe(x, ind), pe(t, ind)),
        E::Pipe(a, f, _) => format!("{} |> {}", pa(a, ind), pa(f, ind)),
        E::Paren(a) => format!("({})", pe(a, ind)),
        E::Raw(t) => t.clone(),
    }
}
pub fn pfn(f: &FnDef) -> String {
    let ps_ = f
        .params
        .iter()
        .map(|(n, d)| match d {
            Some(d) => format!("{n} = {}", pe(d, 0)),
            None => n.clone(),
        })
        .collect::<Vec<_>>()
        .join(", ");
    let body = match &f.body {
        b @ E::Block(..) => pe(b, 0),
        other => format!("{{\n  {}\n}}", pe(other, 1)),
    };
    format!("fn {}({ps_}) {body}\n", f.name)
}
pub fn print(p: &Prog) -> String {
    let mut o = String::new();
    for it in &p.items {
        match it {
            Item::Fn(f) => o.push_str(&pfn(f)),
            Item::Let(pt, e) => {
                o.push_str(&format!("let {} = {}\n", ppat(pt), pe(e, 0)));
            }
        }
    }
    o
}

// ------------------------------------------------------------------ reference interpreter

#[derive(Clone, Debug)]
pub enum V {
    F(f64),
    T(Vec<V>),
    R(Vec<(String, V)>),
    Clo(Rc<Clo>),
    /// a named top-level function used as a value
    Fun(String),
    Unit,
}
#[derive(Debug)]
pub struct Clo {
    pub params: Vec<String>,
    pub body: E,
    pub env: Env,
    pub state: Rc<RefCell<Node>>,
}
pub type Cell = Rc<RefCell<V>>;
#[derive(Clone, Debug, Default)]
pub struct Env(Vec<(String, Cell)>);
impl Env {
    fn get(&self, n: &str) -> Option<Cell> {
        self.0.iter().rev().find(|(k, _)| k == n).map(|(_, c)| c.clone())
    }
    fn bind(&mut self, n: &str, v: V) {
        self.0.push((n.to_string(), Rc::new(RefCell::new(v))));
    }
}
/// state of one call path
#[derive(Debug, Default)]
pub struct Node {
    pub self_val: Option<V>,
    pub mems: HashMap<Site, f64>,
    pub delays: HashMap<Site, Vec<f64>>,
    pub children: HashMap<Site, Rc<RefCell<Node>>>,
}

#[derive(Debug)]
pub enum EvalErr {
    /// construct or situation whose meaning the interpreter does not define
    Undefined(String),
    /// ill-formed program (harness bug)
    Bug(String),
    Fuel,
}
type R<T> = Result<T, EvalErr>;

pub struct Interp<'p> {
    pub prog: &'p Prog,
    fns: HashMap<String, &'p FnDef>,
    pub globals: Env,
    pub root: Rc<RefCell<Node>>,
    pub groot: Rc<RefCell<Node>>,
    pub now: u64,
    pub sr: f64,
    fuel: u64,
}

fn truth(x: f64) -> bool {
    x > 0.0
}
fn b2f(b: bool) -> f64 {
    if b { 1.0 } else { 0.0 }
}

pub fn binop(op: &str, a: f64, b: f64) -> R<f64> {
    Ok(match op {
        "+" => a + b,
        "-" => a - b,
        "*" => a * b,
        "/" => a / b,
        "%" => a % b,
        "^" => a.powf(b),
        "<" => b2f(a < b),
        "<=" => b2f(a <= b),
        ">" => b2f(a > b),
        ">=" => b2f(a >= b),
        "==" => b2f(a == b),
        "!=" => b2f(a != b),
        "&&" => b2f(truth(a) && truth(b)),
        "||" => b2f(truth(a) || truth(b)),
        _ => return Err(EvalErr::Bug(format!("unknown operator {op}"))),
    })
}
pub fn mathfn(f: &str, a: &[f64]) -> R<f64> {
    let x = a[0];
    Ok(match f {
        "sin" => x.sin(),
        "cos" => x.cos(),
        "tan" => x.tan(),
        "sinh" => x.sinh(),
        "cosh" => x.cosh(),
        "tanh" => x.tanh(),
        "asin" => x.asin(),
        "acos" => x.acos(),
        "atan" => x.atan(),
        "atan2" => x.atan2(a[1]),
        "sqrt" => x.sqrt(),
        "abs" => x.abs(),
        "log" => x.ln(),
        "exp" => x.exp(),
        "min" => x.min(a[1]),
        "max" => x.max(a[1]),
        "ceil" => x.ceil(),
        "floor" => x.floor(),
        "round" => x.round(),
        "pow" => x.powf(a[1]),
        _ => return Err(EvalErr::Bug(format!("unknown builtin {f}"))),
    })
}

fn lift(op: &str, a: &V, b: &V) -> R<V> {
    match (a, b) {
        (V::F(x), V::F(y)) => Ok(V::F(binop(op, *x, *y)?)),
        _ => Err(EvalErr::Undefined("operator on non-scalar".into())),
    }
}

impl<'p> Interp<'p> {
    pub fn new(prog: &'p Prog) -> Self {
        let mut fns = HashMap::new();
        for it in &prog.items {
            if let Item::Fn(f) = it {
                fns.insert(f.name.clone(), f);
            }
        }
        Interp {
            prog,
            fns,
            globals: Env::default(),
            root: Rc::new(RefCell::new(Node::default())),
            groot: Rc::new(RefCell::new(Node::default())),
            now: 0,
            sr: crate::run::HOST_SAMPLE_RATE,
            fuel: 0,
        }
    }
    /// run the global initialisers (top-level lets), in order
    pub fn init(&mut self) -> R<()> {
        self.fuel = 200_000;
        for it in &self.prog.items {
            if let Item::Let(p, e) = it {
                let mut env = self.globals.clone();
                let node = self.groot.clone();
                let v = self.eval(e, &mut env, &node, None)?;
                let mut g = std::mem::take(&mut self.globals);
                Self::bind_pat(p, v, &mut g)?;
                self.globals = g;
            }
        }
        Ok(())
    }
    fn bind_pat(p: &Pat, v: V, env: &mut Env) -> R<()> {
        match (p, v) {
            (Pat::Var(n), v) => {
                env.bind(n, v);
                Ok(())
            }
            (Pat::Tuple(ps), V::T(vs)) if ps.len() == vs.len() => {
                for (p, v) in ps.iter().zip(vs) {
                    Self::bind_pat(p, v, env)?;
                }
                Ok(())
            }
            (Pat::Record(fs), V::R(vs)) => {
                for (k, q) in fs {
                    let v = vs.iter().find(|(n, _)| n == k).map(|(_, v)| v.clone()).ok_or_else(|| EvalErr::Bug(format!("record pattern: no field {k}")))?;
                    Self::bind_pat(q, v, env)?;
                }
                Ok(())
            }
            (p, v) => Err(EvalErr::Bug(format!("pattern {p:?} does not match {v:?}"))),
        }
    }
    /// one dsp call; returns flattened output words
    pub fn step(&mut self, t: u64, input: &[f64]) -> R<Vec<f64>> {
        self.now = t;
        self.fuel = 200_000;
        let f = *self.fns.get("dsp").ok_or_else(|| EvalErr::Bug("no dsp".into()))?;
        let args: Vec<V> = f.params.iter().enumerate().map(|(i, _)| V::F(input.get(i).copied().unwrap_or(0.0))).collect();
        let root = self.root.clone();
        let v = self.call_fn(f, args, &root)?;
        let mut out = vec![];
        Self::flatten(&v, &mut out)?;
        Ok(out)
    }
    pub fn flatten(v: &V, out: &mut Vec<f64>) -> R<()> {
        match v {
            V::F(x) => out.push(*x),
            V::T(vs) => {
                for v in vs {
                    Self::flatten(v, out)?
                }
            }
            V::R(fs) => {
                for (_, v) in fs {
                    Self::flatten(v, out)?
                }
            }
            V::Unit => {}
            _ => return Err(EvalErr::Undefined("function value in output".into())),
        }
        Ok(())
    }
    fn call_fn(&mut self, f: &'p FnDef, args: Vec<V>, node: &Rc<RefCell<Node>>) -> R<V> {
        let mut env = self.globals.clone();
        if args.len() > f.params.len() {
            return Err(EvalErr::Bug(format!("too many args for {}", f.name)));
        }
        for (i, (n, d)) in f.params.iter().enumerate() {
            let n = n.split(':').next().unwrap();
            let v = match args.get(i) {
                Some(v) => v.clone(),
                None => match d {
                    Some(d) => {
                        let mut e2 = self.globals.clone();
                        self.eval(d, &mut e2, node, None)?
                    }
                    None => return Err(EvalErr::Bug(format!("missing arg {n} for {}", f.name))),
                },
            };
            env.bind(n, v);
        }
        let selfv = node.borrow().self_val.clone().unwrap_or_else(|| f.ret.zero());
        let r = self.eval(&f.body, &mut env, node, Some(&selfv))?;
        node.borrow_mut().self_val = Some(r.clone());
        Ok(r)
    }
    fn child(node: &Rc<RefCell<Node>>, site: Site) -> Rc<RefCell<Node>> {
        node.borrow_mut().children.entry(site).or_default().clone()
    }
    fn apply(&mut self, f: V, args: Vec<V>, node: &Rc<RefCell<Node>>, site: Site) -> R<V> {
        match f {
            V::Fun(name) => {
                let fd = *self.fns.get(&name).ok_or_else(|| EvalErr::Bug(format!("unknown fn {name}")))?;
                let ch = Self::child(node, site);
                self.call_fn(fd, args, &ch)
            }
            V::Clo(c) => {
                if c.params.len() != args.len() {
                    return Err(EvalErr::Bug("closure arity".into()));
                }
                let mut env = c.env.clone();
                for (n, v) in c.params.iter().zip(args) {
                    env.bind(n, v);
                }
                let st = c.state.clone();
                let selfv = st.borrow().self_val.clone();
                let r = self.eval(&c.body, &mut env, &st, selfv.as_ref())?;
                st.borrow_mut().self_val = Some(r.clone());
                Ok(r)
            }
            other => Err(EvalErr::Bug(format!("call of non-function {other:?}"))),
        }
    }
    fn num(v: &V) -> R<f64> {
        match v {
            V::F(x) => Ok(*x),
            other => Err(EvalErr::Bug(format!("expected number, got {other:?}"))),
        }
    }
    pub fn eval(&mut self, e: &E, env: &mut Env, node: &Rc<RefCell<Node>>, selfv: Option<&V>) -> R<V> {
        if self.fuel == 0 {
            return Err(EvalErr::Fuel);
        }
        self.fuel -= 1;
        Ok(match e {
            E::Num(x) => {
                if *x == 0.0 && x.is_sign_negative() {
                    // printed as -(0.0): the sign of a negated zero is not defined by the statement
                    return Err(EvalErr::Undefined("negative zero literal".into()));
                }
                V::F(*x)
            }
            E::Var(n) => {
                if let Some(c) = env.get(n) {
                    c.borrow().clone()
                } else if self.fns.contains_key(n) {
                    V::Fun(n.clone())
                } else {
                    return Err(EvalErr::Bug(format!("unbound {n}")));
                }
            }
            E::Now => V::F(self.now as f64),
            E::Sr => V::F(self.sr),
            E::SelfV => match selfv {
                Some(v) => v.clone(),
                None => return Err(EvalErr::Undefined("self without known shape".into())),
            },
            E::Neg(a) => {
                let x = Self::num(&self.eval(a, env, node, selfv)?)?;
                if x == 0.0 {
                    return Err(EvalErr::Undefined("negation of zero".into()));
                }
                V::F(-x)
            }
            E::Bin(op, a, b) => {
                let x = self.eval(a, env, node, selfv)?;
                let y = self.eval(b, env, node, selfv)?;
                lift(op, &x, &y)?
            }
            E::Math(f, args) => {
                let mut xs = vec![];
                for a in args {
                    xs.push(Self::num(&self.eval(a, env, node, selfv)?)?);
                }
                V::F(mathfn(f, &xs)?)
            }
            E::Call(f, args, site) => {
                let fv = if let Some(c) = env.get(f) {
                    c.borrow().clone()
                } else if self.fns.contains_key(f) {
                    V::Fun(f.clone())
                } else {
                    return Err(EvalErr::Bug(format!("unbound function {f}")));
                };
                let mut vs = vec![];
                for a in args {
                    vs.push(self.eval(a, env, node, selfv)?);
                }
                self.apply(fv, vs, node, *site)?
            }
            E::CallPack(f, fields, site) => {
                let fd = *self.fns.get(f).ok_or_else(|| EvalErr::Bug(format!("unknown fn {f}")))?;
                // evaluate the given fields in source order, then bind parameters by name
                let mut given: Vec<(String, V)> = vec![];
                for (k, a) in fields.iter().filter(|(k, _)| k != "..") {
                    given.push((k.clone(), self.eval(a, env, node, selfv)?));
                }
                let ch = Self::child(node, *site);
                let mut fenv = self.globals.clone();
                for (n, d) in &fd.params {
                    let n = n.split(':').next().unwrap();
                    let v = match given.iter().find(|(k, _)| k == n) {
                        Some((_, v)) => v.clone(),
                        None => match d {
                            Some(d) => {
                                // the language does not say whether a default value may refer to other parameters
                                let mut mentions_param = false;
                                crate::fam::walk(d, &mut |x| {
                                    if let E::Var(v) = x {
                                        if fd.params.iter().any(|(p, _)| p.split(':').next().unwrap() == v) {
                                            mentions_param = true;
                                        }
                                    }
                                });
                                if mentions_param {
                                    return Err(EvalErr::Undefined("default value refers to another parameter".into()));
                                }
                                let mut e2 = self.globals.clone();
                                self.eval(d, &mut e2, &ch, None)?
                            }
                            None => return Err(EvalErr::Bug(format!("parameter {n} of {f} has no default"))),
                        },
                    };
                    fenv.bind(n, v);
                }
                let sv = ch.borrow().self_val.clone().unwrap_or_else(|| fd.ret.zero());
                let r = self.eval(&fd.body, &mut fenv, &ch, Some(&sv))?;
                ch.borrow_mut().self_val = Some(r.clone());
                r
            }
            E::CallE(f, args, site) => {
                let fv = self.eval(f, env, node, selfv)?;
                let mut vs = vec![];
                for a in args {
                    vs.push(self.eval(a, env, node, selfv)?);
                }
                self.apply(fv, vs, node, *site)?
            }
            E::Pipe(a, f, site) => {
                let av = self.eval(a, env, node, selfv)?;
                let fv = self.eval(f, env, node, selfv)?;
                self.apply(fv, vec![av], node, *site)?
            }
            E::If(c, t, el) => {
                let cv = Self::num(&self.eval(c, env, node, selfv)?)?;
                if cv.is_nan() {
                    return Err(EvalErr::Undefined("NaN condition".into()));
                }
                if truth(cv) { self.eval(t, env, node, selfv)? } else { self.eval(el, env, node, selfv)? }
            }
            E::Block(ss, r) => {
                let mark = env.0.len();
                let mut last = V::Unit;
                for s in ss {
                    match s {
                        S::Let(p, e) => {
                            let v = self.eval(e, env, node, selfv)?;
                            Self::bind_pat(p, v, env)?;
                        }
                        S::LetRec(n, e) => {
                            // the name is in scope in its own definition: bind a cell first, fill it afterwards
                            env.bind(n, V::Unit);
                            let cell = env.get(n).unwrap();
                            let v = self.eval(e, env, node, selfv)?;
                            *cell.borrow_mut() = v;
                        }
                        S::Assign(n, e) => {
                            let v = self.eval(e, env, node, selfv)?;
                            // `r.f = e` assigns one field of the record held by r
                            let (head, field) = match n.split_once('.') {
                                Some((h, f)) => (h, Some(f)),
                                None => (n.as_str(), None),
                            };
                            let c = env.get(head).ok_or_else(|| EvalErr::Bug(format!("assign to unbound {n}")))?;
                            match field {
                                None => *c.borrow_mut() = v,
                                Some(f) => match &mut *c.borrow_mut() {
                                    V::R(fs) => match fs.iter_mut().find(|(k, _)| k == f) {
                                        Some(slot) => slot.1 = v,
                                        None => return Err(EvalErr::Bug(format!("no field {f} to assign"))),
                                    },
                                    other => return Err(EvalErr::Bug(format!("field assignment to {other:?}"))),
                                },
                            }
                        }
                        S::Expr(e) => {
                            last = self.eval(e, env, node, selfv)?;
                        }
                    }
                }
                let _ = last;
                let v = match r {
                    Some(r) => self.eval(r, env, node, selfv)?,
                    None => V::Unit,
                };
                env.0.truncate(mark);
                v
            }
            E::Lambda(ps_, b) => V::Clo(Rc::new(Clo {
                params: ps_.clone(),
                body: (**b).clone(),
                env: env.clone(),
                state: Rc::new(RefCell::new(Node::default())),
            })),
            E::Tuple(es) => {
                let mut vs = vec![];
                for a in es {
                    vs.push(self.eval(a, env, node, selfv)?);
                }
                V::T(vs)
            }
            E::Proj(a, i) => match self.eval(a, env, node, selfv)? {
                V::T(vs) if *i < vs.len() => vs[*i].clone(),
                other => return Err(EvalErr::Bug(format!("projection .{i} of {other:?}"))),
            },
            E::Record(fs) if fs.first().map(|(k, _)| k == "<-").unwrap_or(false) => {
                // record update: a copy of the base with the named fields replaced (values evaluated in source order)
                let mut vs = match self.eval(&fs[0].1, env, node, selfv)? {
                    V::R(vs) => vs,
                    other => return Err(EvalErr::Bug(format!("record update of {other:?}"))),
                };
                for (k, a) in &fs[1..] {
                    let v = self.eval(a, env, node, selfv)?;
                    match vs.iter_mut().find(|(n, _)| n == k) {
                        Some(slot) => slot.1 = v,
                        None => return Err(EvalErr::Bug(format!("record update: no field {k}"))),
                    }
                }
                V::R(vs)
            }
            E::Record(fs) => {
                let mut vs = vec![];
                for (k, a) in fs {
                    vs.push((k.clone(), self.eval(a, env, node, selfv)?));
                }
                V::R(vs)
            }
            E::Field(a, f) => match self.eval(a, env, node, selfv)? {
                V::R(fs) => fs.iter().find(|(k, _)| k == f).map(|(_, v)| v.clone()).ok_or_else(|| EvalErr::Bug(format!("no field {f}")))?,
                other => return Err(EvalErr::Bug(format!("field .{f} of {other:?}"))),
            },
            E::Mem(a, site) => {
                let x = Self::num(&self.eval(a, env, node, selfv)?)?;
                let prev = node.borrow_mut().mems.insert(*site, x).unwrap_or(0.0);
                V::F(prev)
            }
            E::Delay(n, x, t, site) => {
                let xv = Self::num(&self.eval(x, env, node, selfv)?)?;
                let tv = Self::num(&self.eval(t, env, node, selfv)?)?;
                if !(tv >= 1.0 && tv <= *n - 1.0) {
                    return Err(EvalErr::Undefined(format!("delay time {tv} outside [1,{}]", n - 1.0)));
                }
                let d = tv.floor() as usize;
                let mut nb = node.borrow_mut();
                let h = nb.delays.entry(*site).or_default();
                h.push(xv);
                let k = h.len() - 1;
                V::F(if k >= d { h[k - d] } else { 0.0 })
            }
            E::Paren(a) => self.eval(a, env, node, selfv)?,
            E::Raw(_) => return Err(EvalErr::Undefined("raw text".into())),
            E::Array(_) | E::Index(..) => return Err(EvalErr::Undefined("arrays are outside the core language the reference defines".into())),
        })
    }
}

/// Run the reference: init + n samples with the given per-sample inputs.
pub fn reference_run(p: &Prog, n: usize, inputs: &dyn Fn(usize) -> Vec<f64>) -> Result<Vec<Vec<f64>>, EvalErr> {
    let mut it = Interp::new(p);
    it.init()?;
    let mut out = vec![];
    for t in 0..n {
        out.push(it.step(t as u64, &inputs(t))?);
    }
    Ok(out)
}
