//! Runners: drive the real pipelines (bytecode VM / WASM) sample by sample through the same
//! DspRuntime protocol the drivers use (DESIGN §3.3).

use crate::engine::catch;
use mimium_audiodriver::backends::local_buffer::LocalBufferDriver;
use mimium_audiodriver::driver::{Driver, RuntimeData, VmDspRuntime};
use mimium_cli::verif_hooks::Recompiler;
use mimium_lang::compiler::IoChannelInfo;
use mimium_lang::plugin::{ExtFunTypeInfo, Plugin};
use mimium_lang::runtime::wasm::engine::{WasmDspRuntime, WasmEngine};
use mimium_lang::runtime::{DspRuntime, Time};
use mimium_lang::utils::error::ReportableError;
use mimium_lang::{Config, ExecContext};
use state_tree::tree::StateTreeSkeleton;
use std::path::PathBuf;
use std::sync::Arc;
use std::sync::atomic::{AtomicU64, Ordering};

pub type Skel = StateTreeSkeleton<mimium_lang::mir::StateType>;

#[derive(Debug, Clone)]
pub enum RunErr {
    /// rejected with diagnostics
    Compile(Vec<String>),
    /// panic, runtime error code, engine error
    Crash(String),
}

pub fn errs_to_strings(es: &[Box<dyn ReportableError>]) -> Vec<String> {
    es.iter().map(|e| catch(|| e.to_string()).unwrap_or_else(|m| format!("<panic in Display: {m}>"))).collect()
}

#[derive(Clone, Copy, Debug, PartialEq, Eq)]
pub enum Backend {
    Vm,
    Wasm,
}
impl Backend {
    pub fn name(self) -> &'static str {
        match self {
            Backend::Vm => "vm",
            Backend::Wasm => "wasm",
        }
    }
}

thread_local! {
    /// path the next compilations on this thread are told their source comes from (relative `include` / `mod x;` of
    /// corpus files resolve against it); None = the fixed pseudo path
    static SOURCE_PATH: std::cell::RefCell<Option<PathBuf>> = const { std::cell::RefCell::new(None) };
}
pub fn set_source_path(p: Option<PathBuf>) {
    SOURCE_PATH.with(|s| *s.borrow_mut() = p);
}
/// The sample rate the harness announces to both runtimes (and uses in the reference interpreter and in the host of
/// the generated Rust). Deliberately none of the defaults found in the code base (44100 in the WASM runtime state,
/// 48000 in the WASM dsp runtime and in the local buffer driver), so that a stale default shows.
pub const HOST_SAMPLE_RATE: f64 = 32000.0;
fn new_ctx(count: &Arc<AtomicU64>, scheduler: bool) -> (ExecContext, LocalBufferDriver) {
    let mut driver = LocalBufferDriver::new(0);
    driver.set_sample_rate(mimium_audiodriver::driver::SampleRate::from(HOST_SAMPLE_RATE as u32));
    driver.count = count.clone();
    let plug: Box<dyn Plugin> = Box::new(driver.get_as_plugin());
    let path = SOURCE_PATH.with(|s| s.borrow().clone()).unwrap_or_else(|| PathBuf::from("/verif-input.mmm"));
    let mut ctx = ExecContext::new([plug].into_iter(), Some(path), Config::default());
    if scheduler {
        ctx.add_system_plugin(mimium_scheduler::get_default_scheduler_plugin());
    }
    (ctx, driver)
}

pub struct VmRun {
    pub ctx: ExecContext,
    pub rd: RuntimeData,
    pub count: Arc<AtomicU64>,
    _driver: LocalBufferDriver,
    /// the CLI's file runner (hook H6), created at the first swap from the compiler taken out of `ctx`
    recompiler: Option<Recompiler>,
    scheduler: bool,
}
pub struct WasmRun {
    pub ctx: ExecContext,
    pub rt: WasmDspRuntime,
    pub ext_fns: Vec<ExtFunTypeInfo>,
    pub plugin_fns: Option<mimium_lang::runtime::wasm::WasmPluginFnMap>,
    pub prev_skel: Option<Skel>,
    pub io: Option<IoChannelInfo>,
    /// the CLI's file runner (hook H6), created at the first swap
    recompiler: Option<Recompiler>,
    /// compiler used in place of the CLI's compiler subprocess
    swap_compiler: Option<ExecContext>,
    scheduler: bool,
}

pub enum Run {
    Vm(Box<VmRun>),
    Wasm(Box<WasmRun>),
}

/// which way the CLI prepares a WASM hot-swap payload
#[derive(Clone, Copy, Debug, PartialEq, Eq)]
pub enum SwapMode {
    /// in-process recompilation: the new skeleton is known
    InProcess,
    /// subprocess recompilation (the CLI's default for WASM): no skeleton
    Subprocess,
}

impl Run {
    /// compile `src` and run global initialisation
    pub fn start(backend: Backend, src: &str, scheduler: bool) -> Result<Run, RunErr> {
        let count = Arc::new(AtomicU64::new(0));
        match backend {
            Backend::Vm => {
                let r = catch(|| -> Result<VmRun, RunErr> {
                    let (mut ctx, driver) = new_ctx(&count, scheduler);
                    ctx.prepare_machine(src).map_err(|e| RunErr::Compile(errs_to_strings(&e)))?;
                    let _ = ctx.run_main();
                    let rd = RuntimeData::try_from(&mut ctx).map_err(|_| RunErr::Crash("no vm".into()))?;
                    Ok(VmRun { ctx, rd, count: count.clone(), _driver: driver, recompiler: None, scheduler })
                });
                match r {
                    Ok(Ok(v)) => Ok(Run::Vm(Box::new(v))),
                    Ok(Err(e)) => Err(e),
                    Err(m) => Err(RunErr::Crash(format!("panic: {m}"))),
                }
            }
            Backend::Wasm => {
                let r = catch(|| -> Result<WasmRun, RunErr> {
                    let (mut ctx, _driver) = new_ctx(&count, scheduler);
                    ctx.prepare_compiler();
                    let out = ctx.get_compiler().unwrap().emit_wasm(src).map_err(|e| RunErr::Compile(errs_to_strings(&e)))?;
                    let ext_fns = out.ext_fns.clone();
                    let plugin_fns = ctx.freeze_wasm_plugin_fns();
                    let plugin_fns2 = plugin_fns.clone();
                    let workers = ctx.generate_wasm_audioworkers();
                    let mut engine = WasmEngine::new(&ext_fns, plugin_fns).map_err(|e| RunErr::Crash(format!("engine: {e}")))?;
                    engine.load_module(&out.bytes).map_err(|e| RunErr::Crash(format!("load_module: {e}")))?;
                    let mut rt = WasmDspRuntime::new(engine, out.io_channels, out.dsp_state_skeleton.clone());
                    rt.set_wasm_audioworkers(workers);
                    ctx.run_wasm_on_init(rt.engine_mut());
                    rt.run_main().map_err(|e| RunErr::Crash(format!("main: {e}")))?;
                    ctx.run_wasm_after_main(rt.engine_mut());
                    DspRuntime::set_sample_rate(&mut rt, HOST_SAMPLE_RATE);
                    Ok(WasmRun { ctx, rt, ext_fns, plugin_fns: plugin_fns2, prev_skel: out.dsp_state_skeleton, io: out.io_channels, recompiler: None, swap_compiler: None, scheduler })
                });
                match r {
                    Ok(Ok(v)) => Ok(Run::Wasm(Box::new(v))),
                    Ok(Err(e)) => Err(e),
                    Err(m) => Err(RunErr::Crash(format!("panic: {m}"))),
                }
            }
        }
    }
    pub fn io(&self) -> Option<IoChannelInfo> {
        match self {
            Run::Vm(v) => v.rd.io_channels(),
            Run::Wasm(w) => w.rt.io_channels(),
        }
    }
    /// one sample, also returning the runtime's return code (VM: number of words dsp returned)
    pub fn step_rc(&mut self, t: u64, input: &[f64]) -> Result<(i64, Vec<f64>), RunErr> {
        let och = self.io().map_or(0, |io| io.output as usize);
        let r = catch(|| match self {
            Run::Vm(v) => {
                v.count.store(t, Ordering::Relaxed);
                if !input.is_empty() {
                    v.rd.set_input(input);
                }
                let rc = v.rd.run_dsp(Time(t));
                (rc, v.rd.get_output(och).to_vec(), None)
            }
            Run::Wasm(w) => {
                if !input.is_empty() {
                    w.rt.set_input(input);
                }
                let rc = w.rt.run_dsp(Time(t));
                if rc < 0 {
                    // run_dsp only logs the engine's error: fetch it
                    let args: Vec<u64> = input.iter().map(|v| v.to_bits()).collect();
                    if let Err(e) = w.rt.engine_mut().execute_dsp(&args) {
                        return (rc, vec![f64::NAN; 0], Some(e));
                    }
                }
                (rc, w.rt.get_output(och).to_vec(), None)
            }
        });
        let r = r.map(|x| x);
        match r {
            Ok((rc, out, _)) if rc >= 0 => Ok((rc, out)),
            Ok((rc, _, Some(e))) => Err(RunErr::Crash(format!("run_dsp returned {rc}: {e}"))),
            Ok((rc, _, None)) => Err(RunErr::Crash(format!("run_dsp returned {rc}"))),
            Err(m) => Err(RunErr::Crash(format!("panic: {m}"))),
        }
    }
    /// one sample: returns output words
    pub fn step(&mut self, t: u64, input: &[f64]) -> Result<Vec<f64>, RunErr> {
        let och = self.io().map_or(0, |io| io.output as usize);
        let r = catch(|| match self {
            Run::Vm(v) => {
                v.count.store(t, Ordering::Relaxed);
                if !input.is_empty() {
                    v.rd.set_input(input);
                }
                let rc = v.rd.run_dsp(Time(t));
                (rc, v.rd.get_output(och).to_vec())
            }
            Run::Wasm(w) => {
                if !input.is_empty() {
                    w.rt.set_input(input);
                }
                let rc = w.rt.run_dsp(Time(t));
                (rc, w.rt.get_output(och).to_vec())
            }
        });
        match r {
            Ok((rc, out)) if rc >= 0 => Ok(out),
            Ok((rc, _)) => Err(RunErr::Crash(format!("run_dsp returned {rc}"))),
            Err(m) => Err(RunErr::Crash(format!("panic: {m}"))),
        }
    }
    /// flat dsp state words and cursor
    pub fn state(&mut self) -> (Vec<u64>, usize) {
        match self {
            Run::Vm(v) => {
                let rt = v.rd.downcast_runtime_ref::<VmDspRuntime>().unwrap();
                let (w, p) = rt.vm.verif_global_state();
                (w.to_vec(), p)
            }
            Run::Wasm(w) => {
                let e = w.rt.engine_mut();
                let words = e.get_global_state_data().map(|d| d.to_vec()).unwrap_or_default();
                let p = e.verif_global_state_pos().unwrap_or(0);
                (words, p)
            }
        }
    }
    /// Compile `src` again and hot-swap it in, the way the CLI's file runner does (hook H6: the real
    /// `FileRunner::recompile_file_inprocess` / `prepare_hot_swap_wasm_payload`, not a copy).
    /// Ok(true) = swapped; Err(Compile) = rejected (nothing swapped)
    pub fn swap(&mut self, src: &str, mode: SwapMode) -> Result<bool, RunErr> {
        let r = catch(|| -> Result<bool, RunErr> {
            match self {
                Run::Vm(v) => {
                    if v.recompiler.is_none() {
                        // run_file: `let compiler = ctx.take_compiler().unwrap(); FileRunner::new(compiler, ..)`
                        let compiler = v.ctx.take_compiler().ok_or_else(|| RunErr::Crash("no compiler to hand to the file runner".into()))?;
                        v.recompiler = Some(Recompiler::new(compiler, false, None, vec![], None));
                    }
                    match v.recompiler.as_ref().unwrap().recompile_inprocess(src.to_string()) {
                        Some(payload) => Ok(v.rd.resume_with_program(payload)),
                        None => Err(diagnose_silent_recompile(src, v.scheduler, false)),
                    }
                }
                Run::Wasm(w) => {
                    if w.recompiler.is_none() {
                        let compiler = w.ctx.take_compiler().ok_or_else(|| RunErr::Crash("no compiler to hand to the file runner".into()))?;
                        w.recompiler = Some(Recompiler::new(compiler, true, w.prev_skel.clone(), w.ext_fns.clone(), w.plugin_fns.clone()));
                        // stands in for `mimium-cli file --backend=wasm --emit-wasm` run as a subprocess
                        let count = Arc::new(AtomicU64::new(0));
                        let (mut c2, _d) = new_ctx(&count, w.scheduler);
                        c2.prepare_compiler();
                        w.swap_compiler = Some(c2);
                    }
                    let out = w.swap_compiler.as_ref().unwrap().get_compiler().unwrap().emit_wasm(src).map_err(|e| RunErr::Compile(errs_to_strings(&e)))?;
                    let rc = w.recompiler.as_ref().unwrap();
                    let payload = match mode {
                        // Response::WasmModule arm of recompile_file_inprocess
                        SwapMode::InProcess => rc.prepare_hot_swap_wasm_payload(out.bytes, out.dsp_state_skeleton.clone(), Some(&out.ext_fns)),
                        // recompile_file with use_wasm: bytes from the subprocess, no skeleton, no signatures
                        SwapMode::Subprocess => rc.prepare_hot_swap_wasm_payload(out.bytes, None, None),
                    }
                    .map_err(|e| RunErr::Crash(format!("prepare_hot_swap_wasm_payload: {e}")))?;
                    Ok(w.rt.try_hot_swap(payload))
                }
            }
        });
        match r {
            Ok(x) => x,
            Err(m) => Err(RunErr::Crash(format!("panic: {m}"))),
        }
    }
}

/// The file runner sent nothing to the audio thread: it either reported diagnostics (a rejection) or its compiler
/// service died. Recompile directly to tell the two apart.
fn diagnose_silent_recompile(src: &str, scheduler: bool, _wasm: bool) -> RunErr {
    let count = Arc::new(AtomicU64::new(0));
    let r = catch(|| {
        let (mut ctx, _d) = new_ctx(&count, scheduler);
        ctx.prepare_compiler();
        ctx.get_compiler().unwrap().emit_bytecode(src).map(|_| ()).map_err(|e| errs_to_strings(&e))
    });
    match r {
        Ok(Err(es)) => RunErr::Compile(es),
        Ok(Ok(())) => RunErr::Crash("the file runner produced no program although the source compiles".into()),
        Err(m) => RunErr::Crash(format!("panic: {m}")),
    }
}

/// Full run: start, n samples. Returns per-sample outputs as bit patterns.
pub struct FullRun {
    pub io: (u32, u32),
    pub out: Vec<Vec<f64>>,
    /// state words after every sample (if requested)
    pub states: Vec<Vec<u64>>,
    pub cursors: Vec<usize>,
}
pub fn full_run(backend: Backend, src: &str, scheduler: bool, n: usize, inputs: &dyn Fn(usize) -> Vec<f64>, want_state: bool) -> Result<FullRun, RunErr> {
    let mut r = Run::start(backend, src, scheduler)?;
    let io = r.io().map(|i| (i.input, i.output)).unwrap_or((0, 0));
    let mut fr = FullRun { io, out: vec![], states: vec![], cursors: vec![] };
    for t in 0..n {
        let o = r.step(t as u64, &inputs(t))?;
        fr.out.push(o);
        if want_state {
            let (w, c) = r.state();
            fr.states.push(w);
            fr.cursors.push(c);
        }
    }
    Ok(fr)
}

/// like `full_run`, the input stream sized by the number of input channels the compiled program declares
pub fn full_run_auto(backend: Backend, src: &str, scheduler: bool, n: usize, stream: &dyn Fn(usize, usize) -> Vec<f64>) -> Result<FullRun, RunErr> {
    let mut r = Run::start(backend, src, scheduler)?;
    let io = r.io().map(|i| (i.input, i.output)).unwrap_or((0, 0));
    let mut fr = FullRun { io, out: vec![], states: vec![], cursors: vec![] };
    for t in 0..n {
        let o = r.step(t as u64, &stream(t, io.0 as usize))?;
        fr.out.push(o);
    }
    Ok(fr)
}

pub fn bits_eq(a: f64, b: f64) -> bool {
    (a.is_nan() && b.is_nan()) || a.to_bits() == b.to_bits()
}
pub fn num_eq(a: f64, b: f64) -> bool {
    (a.is_nan() && b.is_nan()) || a == b
}
