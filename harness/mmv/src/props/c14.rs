//! C14 — the formatter never changes a program, loses no comment, and is idempotent, for every
//! syntactically valid program of the spaces below and every line width of the menu.

use crate::corpus::corpus;
use crate::engine::*;
use crate::pc::*;
use crate::xform;
use mimium_fmt::pretty_print_cst;
use mimium_lang::compiler::parser;
use mimium_lang::utils::miniprint::MiniPrint;
use serde_json::{Value, json};
use std::collections::BTreeMap;
use std::path::PathBuf;
use std::sync::OnceLock;

pub struct C14;

const WIDTHS: [usize; 6] = [1, 8, 20, 40, 80, 200];

fn space(tier: Tier) -> &'static Space {
    static Q: OnceLock<Space> = OnceLock::new();
    static T: OnceLock<Space> = OnceLock::new();
    match tier {
        Tier::Quick => Q.get_or_init(|| Space::new(&[("FS", 1), ("FC", 2), ("FA", 2), ("FT", 1), ("FB", 2), ("FU", 0)])),
        Tier::Thorough => T.get_or_init(|| Space::new(&[("FS", 2), ("FC", 3), ("FA", 3), ("FT", 2), ("FB", 3), ("FU", 0), ("FX", 0)])),
    }
}
/// hand-written texts covering productions the families do not print
fn extra_texts() -> Vec<(String, String)> {
    let mut v: Vec<(String, String)> = crate::props::c15::PROGRAMS.iter().map(|(n, s)| (format!("c15:{n}"), s.to_string())).collect();
    let more: [(&str, &str); 38] = [
        // tokens that span several lines with blanks in front of an inner line break
        ("multiline_string_with_inner_trailing_blanks", "fn dsp() {\n  let s = \"left \n channel\t\nend\"\n  0.0\n}\n"),
        ("multiline_block_comment_with_inner_trailing_blanks", "fn dsp(x) {\n  /* half  \n     scale\t\n  */\n  x * 0.5\n}\n"),
        ("macro_keyword", "macro m(x) {\n  `{ $x + 1.0 }\n}\nfn dsp(x) {\n  m!(`x)\n}\n"),
        ("double_minus", "fn dsp(x) {\n  let y = x\n  1.0 - -y + (- -y)\n}\n"),
        ("if_then_on_next_line", "fn dsp(x) {\n  let a = if (x > 0.5)\n    (1.0) else (2.0)\n  if (x > 0.5)\n    [1.0, a][0] else (2.0, 3.0).0\n}\n"),
        ("trailing_commas_with_comments", "fn f(a, b,) {\n  a + b\n}\nfn dsp(x) {\n  f(x, /* one */ 1.0, /* two */ )\n}\n"),
        ("macro_arguments_with_comments", "#stage(macro)\nfn m(a, b) {\n  `{ $a + $b }\n}\n#stage(main)\nfn dsp(x) {\n  m!(`x, /* c */ `1.0)\n}\n"),
        ("lambda_union_return_type", "fn dsp(x) {\n  let f = |y: float| -> (float | string) { y }\n  x\n}\n"),
        ("match_and_types", "type alias Pt = (float, float)\ntype Dir = Up | Down\ntype rec List = Nil | Cons(float, List)\nfn sum(l: List) -> float {\n  match l {\n    Nil => 0.0,\n    Cons(h, t) => h + sum(t)\n  }\n}\nfn dsp(x) {\n  let d = Up\n  let v = match d { Up => 1.0, Down => 2.0 }\n  let w = match x { 0 => 1.0, 1 => { let q = 2.0\n q }, _ => 3.0 }\n  let m = match (x, 1.0) { (a, b) => a + b }\n  v + w + m + sum(Cons(1.0, Nil))\n}\n"),
        ("match_arms_on_lines", "fn dsp(x) {\n  match x {\n    0 => 1.0\n    1 => 2.0\n    _ => 3.0\n  }\n}\n"),
        ("if_without_parentheses", "fn dsp(x) {\n  if x > 0.0 {\n    1.0\n  } else {\n    2.0\n  }\n}\n"),
        ("record_pattern_and_update", "fn dsp(x) {\n  let r = {a = x, b = 2.0}\n  let {a = p, b = q} = r\n  let r2 = {r <- a = p + q}\n  r2.a + r.b\n}\n"),
        ("one_element_tuple_and_pattern", "fn dsp(x) {\n  let t = (x,)\n  let (y,) = t\n  y + t.0\n}\n"),
        ("lambda_without_parameters", "fn dsp(x) {\n  let c = 1.0\n  let f = | | { c + x }\n  let g = | | c\n  f() + g()\n}\n"),
        ("typed_everything", "fn f(a:float, t:(float, float), r:{p:float, q:float}, g:(float)->float) -> float {\n  g(a) + t.0 + r.p\n}\nfn dsp(x:float) -> float {\n  let y:float = x\n  let (u, v):(float, float) = (y, 1.0)\n  f(u, (v, 1.0), {p = 1.0, q = 2.0}, |z:float| -> float { z })\n}\n"),
        ("modules_and_use", "mod m {\n  pub fn f(x) {\n    x + 1.0\n  }\n  pub mod n {\n    pub fn g(x) {\n      x * 2.0\n    }\n  }\n}\nuse m::n::g\nuse m::{f}\nfn dsp(x) {\n  f(x) + g(x) + m::n::g(x)\n}\n"),
        // a block comment that is the first thing on its line, in front of: a continuation operand, an opening brace, a
        // comma (comma-first layout), the closing brace of a function body (all preserved on the unchanged tree), and
        // - after a list comma - a tuple element, a call argument, a record field (dropped: listed finding)
        ("comment_first_on_line_before_operand", "fn dsp(x) {\n  let y = x +\n    /* why */ 1.0\n  y\n}\n"),
        ("comment_first_on_line_before_open_brace", "fn g()\n/* body */ {\n  1.0\n}\nfn dsp(x) {\n  g()\n}\n"),
        ("comment_first_on_line_before_comma", "fn dsp(x) {\n  let t = (1.0\n    /* second */ , 2.0)\n  t.0\n}\n"),
        ("comment_first_on_line_before_close_brace", "fn dsp(x) {\n  x\n  /* end */ }\n"),
        ("comment_first_on_line_after_comma_tuple", "fn dsp(x) {\n  let t = (1.0,\n    /* c */ 2.0)\n  t.0\n}\n"),
        ("comment_first_on_line_after_comma_argument", "fn dsp(x) {\n  let y = min(x,\n    /* arg */ 2.0)\n  y\n}\n"),
        ("comment_first_on_line_after_comma_field", "fn dsp(x) {\n  let r = {a = 1.0,\n    /* f */ b = 2.0}\n  r.a\n}\n"),
        ("block_comment_before_first_token", "/* c */ fn dsp(x) {\n  x\n}\n"),
        ("block_comment_first_in_nested_block", "fn dsp(x) {\n  let v1 = {\n    /* c */ let b1 = x\n    b1\n  }\n  v1\n}\n"),
        ("block_comment_before_toplevel_item", "fn g(x) {\n  x\n}\n/* c */ fn dsp(x) {\n  g(x)\n}\n"),
        ("typed_params", "fn f(a:float, b) -> float {\n  a + b\n}\nfn dsp() {\n  f(1.0, 2.0)\n}\n"),
        ("typed_lambda", "fn dsp(x) {\n  let f = |a:float, b:float| -> float { a * b }\n  f(x, 2.0)\n}\n"),
        ("comments_everywhere", "// leading\nfn dsp(x) { // after brace\n  let a = 1.0 /* mid */ + x // eol\n  /* before stmt */ let b = a\n  b // last\n}\n// trailing\n"),
        ("pipes", "fn g(x) {\n  x * 2.0\n}\nfn dsp(x) {\n  x |> g |> g ||> _ + 1.0\n}\n"),
        ("record_default", "fn foo(x = 100.0, y = 200.0) {\n  x + y\n}\nfn dsp() {\n  foo({..}) + foo({y = 1.0})\n}\n"),
        ("array", "fn dsp(x) {\n  let a = [1.0, 2.0, x]\n  a[0] + a[2]\n}\n"),
        ("string_include_like", "fn dsp() {\n  let s = \"hello // not a comment\"\n  0.0\n}\n"),
        ("nested_if_else_if", "fn dsp(x) {\n  if (x > 1.0) 1.0 else if (x > 0.0) 2.0 else if (x > -1.0) 3.0 else 4.0\n}\n"),
        ("letrec", "fn dsp(x) {\n  letrec fact = |n| if (n > 0.0) n * fact(n - 1.0) else 1.0\n  fact(3.0)\n}\n"),
        ("unary_and_parens", "fn dsp(x) {\n  -(x + 1.0) * (2.0 - -x) % 3.0 ^ 2.0\n}\n"),
        ("long_call", "fn f(a, b, c, d, e, g) {\n  a + b + c + d + e + g\n}\nfn dsp(x) {\n  f(x + 1.0, x + 2.0, x + 3.0, x + 4.0, x + 5.0, x + 6.0) + f(1.0, 2.0, 3.0, 4.0, 5.0, 6.0)\n}\n"),
        ("global_lets_and_stage", "let PI = 3.14\nlet (a, b) = (1.0, 2.0)\n#stage(macro)\nfn m(e) {\n  `{ $e + 1.0 }\n}\n#stage(main)\nfn dsp(x) {\n  m!(`x) * PI + a + b\n}\n"),
    ];
    v.extend(more.iter().map(|(n, s)| (format!("extra:{n}"), s.to_string())));
    v
}
fn corpus_ok() -> &'static Vec<usize> {
    static C: OnceLock<Vec<usize>> = OnceLock::new();
    C.get_or_init(|| {
        corpus()
            .iter()
            .enumerate()
            .filter(|(_, f)| f.text.len() < 6000 && catch(|| parser::parse_to_expr(&f.text, Some(PathBuf::from("/verif-input.mmm"))).2.is_empty()).unwrap_or(false))
            .map(|(i, _)| i)
            .collect()
    })
}
/// per-base variants: 0 = as printed, 1.. = layout/comment variants
/// as printed + the whole-program layout variants except `block_comment_at_line_start`: the formatter drops block comments
/// at the start of a line in so many positions on the unchanged tree (before the first token, a top-level item, a closing
/// brace, inside and after nested blocks - three of them kept as witness texts with their findings) that the variant
/// cannot tell a new loss from the listed ones
const NVAR: u64 = xform::LAYOUTS.len() as u64 + 3;
/// programs whose single-gap deviations are enumerated (a block comment at every token boundary; inside parentheses and
/// square brackets also a line break and a line comment), and the fixed number of index slots per program
const GAPMAX: u64 = 900;
fn gap_space(tier: Tier) -> &'static Space {
    static Q: OnceLock<Space> = OnceLock::new();
    static T: OnceLock<Space> = OnceLock::new();
    match tier {
        Tier::Quick => Q.get_or_init(|| Space::new(&[("FS", 1), ("FC", 1), ("FA", 1), ("FB", 1)])),
        Tier::Thorough => T.get_or_init(|| Space::new(&[("FS", 1), ("FC", 2), ("FA", 2), ("FB", 2), ("FT", 1)])),
    }
}
fn gap_case(src: &str, g: u64) -> Option<(String, String)> {
    let gaps = xform::gap_variants(src);
    let (at, ins, name) = *gaps.get(g as usize)?;
    let mut t = src.to_string();
    t.insert_str(at, ins);
    Some((t, format!("gap {g} at byte {at}: {name}")))
}

fn strip_spans(s: &str) -> String {
    // simple_print appends ":start..end" to located nodes
    let b = s.as_bytes();
    let mut o = String::with_capacity(s.len());
    let mut i = 0;
    while i < b.len() {
        if b[i] == b':' && i + 1 < b.len() && b[i + 1].is_ascii_digit() {
            let mut j = i + 1;
            while j < b.len() && b[j].is_ascii_digit() {
                j += 1;
            }
            if j + 1 < b.len() && b[j] == b'.' && b[j + 1] == b'.' {
                let mut k = j + 2;
                if k < b.len() && b[k].is_ascii_digit() {
                    while k < b.len() && b[k].is_ascii_digit() {
                        k += 1;
                    }
                    i = k;
                    continue;
                }
            }
        }
        o.push(b[i] as char);
        i += 1;
    }
    o
}
fn ast_of(src: &str) -> Result<String, usize> {
    let (ast, _mi, errs) = parser::parse_to_expr(src, Some(PathBuf::from("/verif-input.mmm")));
    if !errs.is_empty() {
        return Err(errs.len());
    }
    Ok(strip_spans(&ast.to_expr().simple_print()))
}
fn comments_of(src: &str) -> Vec<String> {
    parser::tokenize(src)
        .iter()
        .filter(|t| matches!(t.kind, parser::TokenKind::SingleLineComment | parser::TokenKind::MultiLineComment))
        .map(|t| t.text(src).trim_end().to_string())
        .collect()
}

fn input(tier: Tier, idx: u64) -> Option<(String, String, Vec<String>)> {
    let nfam = space(tier).n() * NVAR;
    if idx < nfam {
        let (base, var) = (idx / NVAR, idx % NVAR);
        let (_, g) = space(tier).get(base);
        let g = g?;
        let src = g.source();
        let (text, what) = if var == 0 { (src, "as printed".to_string()) } else { (layout_variant(&src, (var - 1) as usize), format!("layout {}", layout_name((var - 1) as usize))) };
        return Some((text, format!("{} {:?} ({what})", g.family, g.ops), vec![g.family.to_string(), format!("variant_{var}")]));
    }
    let k = idx - nfam;
    let extras = extra_texts();
    if (k as usize) < extras.len() * NVAR as usize {
        let (e, var) = (&extras[k as usize / NVAR as usize], k % NVAR);
        let text = if var == 0 { e.1.clone() } else { layout_variant(&e.1, (var - 1) as usize) };
        return Some((text, format!("{} (variant {var})", e.0), vec![e.0.clone(), format!("variant_{var}")]));
    }
    let k = k as usize - extras.len() * NVAR as usize;
    let files = corpus_ok();
    if k < files.len() {
        let f = &corpus()[files[k]];
        return Some((f.text.clone(), format!("corpus {}", f.path.display()), vec!["corpus".into(), format!("file:{}", f.path.file_name().unwrap().to_string_lossy())]));
    }
    // single-gap deviations of the one-operation programs and of the hand-written texts
    let k = (k - files.len()) as u64;
    let (b, g) = (k / GAPMAX, k % GAPMAX);
    let ng = gap_space(tier).n();
    if b < ng {
        let (_, p) = gap_space(tier).get(b);
        let p = p?;
        let (text, what) = gap_case(&p.source(), g)?;
        return Some((text, format!("{} {:?} ({what})", p.family, p.ops), vec![p.family.to_string(), "gap".into()]));
    }
    let e = extras.get((b - ng) as usize)?;
    let (text, what) = gap_case(&e.1, g)?;
    Some((text, format!("{} ({what})", e.0), vec![e.0.clone(), "gap".into()]))
}
fn layout_variant(src: &str, which: usize) -> String {
    match which {
        0 => src.replace(' ', "  "),
        1 => src.replace('(', "( /* c */ "),
        2 => src.replace(", ", ",\n    "),
        3 => src.lines().map(|l| format!("{l} // c")).collect::<Vec<_>>().join("\n") + "\n",
        4 => src.replace(')', " /* c */ )"),
        5 => src.replace('\n', "\r\n"),
        6 => xform::comment_at_line_start(src),
        // a block comment in front of the first token of EVERY line (first line, closing braces, nested blocks included)
        7 => src.lines().map(|l| if l.trim().is_empty() { l.to_string() } else { let t = l.trim_start(); format!("{}/* c */ {t}", &l[..l.len() - t.len()]) }).collect::<Vec<_>>().join("\n") + "\n",
        // a block comment after the last token of every line
        _ => src.lines().map(|l| if l.trim().is_empty() { l.to_string() } else { format!("{l} /* e */") }).collect::<Vec<_>>().join("\n") + "\n",
    }
}
fn layout_name(which: usize) -> &'static str {
    match which {
        w if w < xform::LAYOUTS.len() => xform::LAYOUTS[w],
        7 => "block_comment_at_every_line_start",
        _ => "block_comment_at_every_line_end",
    }
}

impl Prop for C14 {
    fn id(&self) -> &'static str {
        "C14"
    }
    fn n_cases(&self, tier: Tier) -> u64 {
        space(tier).n() * NVAR + (extra_texts().len() as u64) * NVAR + corpus_ok().len() as u64 + (gap_space(tier).n() + extra_texts().len() as u64) * GAPMAX
    }
    fn chunk(&self, _t: Tier) -> u64 {
        200
    }
    fn stack_bytes(&self) -> usize {
        16 << 20
    }
    fn run_case(&self, tier: Tier, idx: u64) -> CaseOut {
        let Some((src, what, mut tags)) = input(tier, idx) else {
            return CaseOut { key: idx, nontrivial: false, outcome: "invalid_index".into(), ..Default::default() };
        };
        let ast0 = match catch(|| ast_of(&src)) {
            Ok(Ok(a)) => a,
            _ => return CaseOut { key: fnv(src.as_bytes()), nontrivial: false, outcome: "input_not_syntactically_valid".into(), tags, repr: json!({"what": what}), ..Default::default() },
        };
        let com0 = comments_of(&src);
        if !com0.is_empty() {
            tags.push("has_comments".into());
        }
        let squeezed: String = src.split_whitespace().collect::<Vec<_>>().join(" ");
        if squeezed.contains("| |") || squeezed.contains("||{") || squeezed.contains("|| {") || squeezed.contains("= ||") {
            tags.push("has_lambda_without_parameters".into());
        }
        // a function header whose parameter list contains `=`
        let has_default = squeezed.match_indices("fn ").any(|(i, _)| {
            let rest = &squeezed[i..];
            match (rest.find('('), rest.find('{')) {
                (Some(a), Some(b)) if a < b => {
                    let mut depth = 0;
                    let mut end = None;
                    for (k, ch) in rest[a..].char_indices() {
                        match ch {
                            '(' => depth += 1,
                            ')' => {
                                depth -= 1;
                                if depth == 0 {
                                    end = Some(a + k);
                                    break;
                                }
                            }
                            _ => {}
                        }
                    }
                    end.map(|e| rest[a..e].contains('=')).unwrap_or(false)
                }
                _ => false,
            }
        });
        if has_default || squeezed.contains(" = 100.0,") || squeezed.contains("(x = ") {
            tags.push("has_default_parameter".into());
        }
        if src.trim_end().lines().last().map(|l| l.trim_start().starts_with("//")).unwrap_or(false) {
            tags.push("comment_after_last_token".into());
        }
        if src.lines().any(|l| l.trim_start().starts_with("type ") || l.trim_start().starts_with("pub type ")) {
            tags.push("has_type_declaration".into());
        }
        if squeezed.contains("match ") {
            tags.push("has_match".into());
        }
        if squeezed.replace("/* c */", "").replace(' ', "").contains(",)") {
            tags.push("has_one_element_tuple".into());
        }
        if squeezed.contains("let {") {
            tags.push("has_record_pattern".into());
        }
        if squeezed.contains("type alias") {
            tags.push("has_type_alias".into());
        }
        if [":float", ": float", ":(", ": (", ":{", ":`", ": `", ":[", ": [", ":Pt", ": Pt", ": List", ":List", ": Dir", ":Dir", ":()", ": ()"].iter().any(|p| squeezed.contains(p)) {
            tags.push("has_type_annotation".into());
        }
        if src.lines().any(|l| l.trim_end().ends_with("{ // c") || l.trim_end().ends_with("} // c") || l.contains("{ //") || l.trim_start().starts_with("} //")) {
            tags.push("line_comment_after_brace".into());
        }
        if src.trim_start().starts_with("/*") {
            tags.push("block_comment_before_first_token".into());
        }
        {
            let ls: Vec<&str> = src.lines().collect();
            if ls.iter().any(|l| l.starts_with("    ") && l.trim_start().starts_with("/*")) {
                tags.push("block_comment_first_in_nested_block".into());
            }
        }
        if squeezed.contains(", /* c */ 2.0") || squeezed.contains(", /* arg */") || squeezed.contains(", /* f */") {
            tags.push("block_comment_after_list_comma_at_line_start".into());
        }
        if squeezed.contains("} /* c */ fn ") {
            tags.push("block_comment_before_toplevel_item".into());
        }
        // `else { .. } /* c */ )`: a block comment between the closing brace of an else block and a closing parenthesis
        if squeezed.match_indices("} /* c */ )").any(|(i, _)| {
            let b = squeezed.as_bytes();
            let (mut depth, mut k) = (0i32, i);
            loop {
                match b[k] {
                    b'}' => depth += 1,
                    b'{' => {
                        depth -= 1;
                        if depth == 0 {
                            break;
                        }
                    }
                    _ => {}
                }
                if k == 0 {
                    return false;
                }
                k -= 1;
            }
            squeezed[..k].trim_end().ends_with("else")
        }) {
            tags.push("block_comment_between_else_block_and_parenthesis".into());
        }
        let mut fails: Vec<Fail> = vec![];
        let mut outcome = "preserved";
        for &w in &WIDTHS {
            let out = match catch(|| pretty_print_cst(&src, &None, w)) {
                Ok(Ok(o)) => o,
                Ok(Err(_)) => {
                    outcome = "failed";
                    fails.push(Fail { clause: "formatter_rejects_valid_program".into(), detail: format!("width {w}") });
                    continue;
                }
                Err(m) => {
                    outcome = "failed";
                    fails.push(Fail { clause: "formatter_panics".into(), detail: format!("width {w}: {m}") });
                    continue;
                }
            };
            match catch(|| ast_of(&out)) {
                Ok(Ok(a)) => {
                    if a != ast0 {
                        outcome = "failed";
                        let pos = a.bytes().zip(ast0.bytes()).position(|(x, y)| x != y).unwrap_or(0);
                        let lo = pos.saturating_sub(40);
                        fails.push(Fail { clause: "output_parses_to_a_different_ast".into(), detail: format!("width {w}: ...{} vs ...{}", &ast0[lo..(pos + 60).min(ast0.len())], &a[lo.min(a.len())..(pos + 60).min(a.len())]) });
                    }
                }
                Ok(Err(n)) => {
                    outcome = "failed";
                    fails.push(Fail { clause: "output_does_not_parse".into(), detail: format!("width {w}: {n} syntax errors in {:?}", out.chars().take(300).collect::<String>()) });
                }
                Err(m) => fails.push(Fail { clause: "output_parse_panics".into(), detail: format!("width {w}: {m}") }),
            }
            let com1 = comments_of(&out);
            if com1 != com0 {
                outcome = "failed";
                fails.push(Fail { clause: "comments_lost_or_reordered".into(), detail: format!("width {w}: input comments {com0:?}, output comments {com1:?}") });
            }
            match catch(|| pretty_print_cst(&out, &None, w)) {
                Ok(Ok(o2)) => {
                    if o2 != out {
                        outcome = "failed";
                        fails.push(Fail { clause: "not_idempotent".into(), detail: format!("width {w}: first {:?} second {:?}", out.chars().take(200).collect::<String>(), o2.chars().take(200).collect::<String>()) });
                    }
                }
                Ok(Err(_)) => fails.push(Fail { clause: "formatter_rejects_its_own_output".into(), detail: format!("width {w}") }),
                Err(m) => fails.push(Fail { clause: "formatter_panics".into(), detail: format!("width {w} (second pass): {m}") }),
            }
        }
        fails.sort_by(|a, b| a.clause.cmp(&b.clause));
        fails.dedup_by(|a, b| a.clause == b.clause);
        CaseOut {
            key: fnv(src.as_bytes()),
            nontrivial: true,
            outcome: outcome.into(),
            fails,
            tags,
            repr: json!({"what": what, "source": src.chars().take(1200).collect::<String>()}),
            counters: vec![("formatter_runs".into(), 2 * WIDTHS.len() as u64)],
        }
    }
    fn describe_case(&self, tier: Tier, idx: u64) -> (Value, Vec<String>) {
        match input(tier, idx) {
            Some((s, w, t)) => (json!({"what": w, "source": s.chars().take(600).collect::<String>()}), t),
            None => (json!({"idx": idx}), vec![]),
        }
    }
    fn crash_clause(&self) -> &'static str {
        "formatter_crash_or_hang"
    }
    fn describe(&self, tier: Tier) -> Descr {
        Descr {
            rule: format!(
                "every program of the families {} as printed and in {} layout/comment variants, {} hand-written texts covering further productions (typed parameters, typed lambdas, comments at every position, pipes, default arguments, arrays, strings, else-if chains, letrec, unary operators, long calls, global lets and stage directives, modules, enums, records, macros) in the same variants, and every corpus file that parses without error ({} files), each at widths {WIDTHS:?}: the formatter must return text that parses without errors to the same AST (span-erased structural print), contains the same comments in the same order, and is a fixed point of the formatter.",
                space(tier).describe(),
                xform::LAYOUTS.len(),
                extra_texts().len(),
                corpus_ok().len()
            ),
            assumptions: vec!["AST equality is equality of mimium's own structural print with byte spans erased".into(), "indent size is the default (4)".into()],
            bounds: json!({"widths": WIDTHS, "families": space(tier).describe()}),
            shape: "E",
        }
    }
    fn vacuity(&self, _t: Tier, c: &BTreeMap<String, u64>) -> Vec<String> {
        if c.get("formatter_runs").copied().unwrap_or(0) == 0 { vec!["formatter never ran".into()] } else { vec![] }
    }
}
