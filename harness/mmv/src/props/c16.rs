//! C16 — meaning is invariant under consistent renaming, redundant parentheses, layout/comments and
//! agreeing type annotations: every deviation-1 transformation of every base program must compile
//! iff the base compiles and produce bit-identical outputs.

use crate::engine::*;
use crate::pc::*;
use crate::run::{Backend, RunErr, bits_eq};
use crate::xform::{self, TMAX};
use serde_json::{Value, json};
use std::collections::BTreeMap;
use std::sync::OnceLock;

pub struct C16;

fn space(tier: Tier) -> &'static Space {
    static Q: OnceLock<Space> = OnceLock::new();
    static T: OnceLock<Space> = OnceLock::new();
    match tier {
        Tier::Quick => Q.get_or_init(|| Space::new(&[("FS", 1), ("FC", 2), ("FA", 2)])),
        Tier::Thorough => T.get_or_init(|| Space::new(&[("FS", 2), ("FC", 3), ("FA", 3)])),
    }
}
const N: usize = 8;

/// hand-written templates with one renamable local `@L@` placed next to every kind of name it could collide
/// with (sibling / parent-module functions, the module's own name, top-level functions, desugaring temporaries)
const TEMPLATES: [(&str, &[&str]); 8] = [
    (
        "mod m {\n  pub fn shape(x) {\n    x * 100.0\n  }\n  pub fn run(@L@, x) {\n    @L@ + x\n  }\n  pub fn run2(x) {\n    let @L@ = x * 0.5\n    @L@ + 1.0\n  }\n  pub fn run3(x) {\n    |@L@| @L@ + x\n  }\n}\nfn other(x) {\n  x * 7.0\n}\nfn dsp(x) {\n  m::run(2.0, x) + m::run2(x) + m::shape(0.0) + m::run3(x)(1.0) + other(0.0)\n}\n",
        &["shape", "run", "run2", "run3", "m", "other", "dsp", "lambda_0", "_mimium_global"],
    ),
    (
        "mod outer {\n  pub fn bias(x) {\n    x * 1000.0\n  }\n  pub mod inner {\n    pub fn f(@L@, x) {\n      let t = @L@ * 2.0\n      t + x\n    }\n  }\n}\nfn dsp(x) {\n  outer::inner::f(2.0, x) + outer::bias(0.0)\n}\n",
        &["bias", "outer", "inner", "f", "dsp"],
    ),
    (
        "fn dsp(x) {\n  let r = {a = 1.0, b = 2.0}\n  let @L@ = 5.0 + x\n  let r2 = {r <- a = @L@}\n  r2.a + r2.b\n}\n",
        &["record_update_temp", "r2", "a", "__dt0", "lambda_0"],
    ),
    // binders of every kind, and record keys, named like module members that are imported (wildcard or by name) but not
    // referred to inside the binder's scope
    (
        "mod m {\n  pub fn gain(x) {\n    x * 3.0\n  }\n  pub fn pan(x) {\n    x + 200.0\n  }\n  pub fn unused(x) {\n    x\n  }\n}\nuse m::*\nfn dsp(x) {\n  let r = {position = 3.0, level = 2.0}\n  let {position = @L@, level = lv} = r\n  @L@ + lv + pan(x)\n}\n",
        &["gain", "unused", "m", "position", "level"],
    ),
    (
        "mod m {\n  pub fn gain(x) {\n    x * 3.0\n  }\n  pub fn pan(x) {\n    x + 200.0\n  }\n}\nuse m::gain\nuse m::pan\nfn dsp(x) {\n  let r = {@L@ = 3.0, level = 2.0}\n  let {@L@ = p, level = lv} = r\n  p + lv + pan(x) + r.@L@\n}\n",
        &["gain", "pan", "m", "p", "dsp"],
    ),
    (
        "mod m {\n  pub fn gain(x) {\n    x * 3.0\n  }\n  pub fn pan(x) {\n    x + 200.0\n  }\n}\nuse m::*\nfn h(@L@) {\n  @L@ * 2.0\n}\nfn dsp(x) {\n  let (@L@, b) = (x, 1.0)\n  let f = |@L@| @L@ + b\n  f(@L@) + h(b) + pan(x)\n}\n",
        &["gain", "m"],
    ),
    (
        "mod m {\n  pub fn gain(x) {\n    x * 3.0\n  }\n  pub fn pan(x) {\n    x + 200.0\n  }\n}\nuse m::{gain, pan}\nfn dsp(x) {\n  letrec @L@ = |n| if (n > 0.5) @L@(n - 1.0) + 1.0 else x\n  let v = match (x, 2.0) {\n    (a, b) => a + b\n  }\n  @L@(2.0) + v + pan(x)\n}\n",
        &["gain", "m"],
    ),
    // names the self/feedback conversion and the lambda lifting give their temporaries
    (
        "fn cnt(@L@) {\n  self + @L@\n}\nfn dsp(x) {\n  let @L@ = x + 1.0\n  let f = |y| y + @L@\n  cnt(@L@) + f(1.0)\n}\n",
        &["feed_id0", "feed_id1", "feed_id", "lambda_0", "closure_0", "dsp", "state", "self_"],
    ),
];
/// hand-written (base, transformed) pairs for transformations the AST-level enumerator does not produce: an agreeing
/// annotation on a lambda parameter in front of every kind of body (the `|` that closes the parameter list must not be
/// read as a union type), redundant parentheses around the body of an annotated lambda
const PAIRS: [(&str, &str, &str, &str); 6] = [
    ("fn dsp(x) {\n  let f = |y| (y + 1.0)\n  f(x)\n}\n", "fn dsp(x) {\n  let f = |y: float| (y + 1.0)\n  f(x)\n}\n", "annotation", "lambda parameter y, parenthesised body"),
    ("fn dsp(x) {\n  let f = |y: float| y + 1.0\n  f(x)\n}\n", "fn dsp(x) {\n  let f = |y: float| (y + 1.0)\n  f(x)\n}\n", "parens", "body of an annotated lambda"),
    ("fn dsp(x) {\n  let f = |y| [y, 2.0]\n  f(x)[0]\n}\n", "fn dsp(x) {\n  let f = |y: float| [y, 2.0]\n  f(x)[0]\n}\n", "annotation", "lambda parameter y, array body"),
    ("fn ap(g, v) {\n  g(v)\n}\nfn dsp(x) {\n  let z = 3.0\n  ap(|y| z, x)\n}\n", "fn ap(g, v) {\n  g(v)\n}\nfn dsp(x) {\n  let z = 3.0\n  ap(|y: float| z, x)\n}\n", "annotation", "lambda parameter y, body a variable followed by a comma"),
    ("fn ap(v, g) {\n  g(v)\n}\nfn dsp(x) {\n  let z = 3.0\n  ap(x, |y| z)\n}\n", "fn ap(v, g) {\n  g(v)\n}\nfn dsp(x) {\n  let z = 3.0\n  ap(x, |y: float| z)\n}\n", "annotation", "lambda parameter y, body a variable followed by a closing parenthesis"),
    ("fn dsp(x) {\n  let f = |y, w| {\n    y + w\n  }\n  f(x, 1.0)\n}\n", "fn dsp(x) {\n  let f = |y: float, w: float| -> float {\n    y + w\n  }\n  f(x, 1.0)\n}\n", "annotation", "lambda parameters and return type, block body"),
];
fn n_templates() -> u64 {
    TEMPLATES.iter().map(|t| t.1.len() as u64).sum::<u64>() + PAIRS.len() as u64
}
/// (base, transformed, what, kind)
fn template_case(mut k: u64) -> (String, String, String, &'static str) {
    for (text, names) in TEMPLATES.iter() {
        if k < names.len() as u64 {
            let n = names[k as usize];
            return (text.replace("@L@", "q"), text.replace("@L@", n), format!("local q -> {n}"), "rename");
        }
        k -= names.len() as u64;
    }
    let (b, t, kind, what) = PAIRS[k as usize];
    (b.to_string(), t.to_string(), what.to_string(), if kind == "parens" { "parens" } else { "annotation" })
}

fn observe(b: Backend, src: &str, nin: usize) -> Result<Vec<Vec<f64>>, RunErr> {
    run_backend(b, src, false, nin, 0, N, false).map(|fr| fr.out)
}
fn label(r: &Result<Vec<Vec<f64>>, RunErr>) -> &'static str {
    match r {
        Ok(_) => "runs",
        Err(RunErr::Compile(_)) => "rejected",
        Err(RunErr::Crash(_)) => "crashes",
    }
}

impl Prop for C16 {
    fn id(&self) -> &'static str {
        "C16"
    }
    fn n_cases(&self, tier: Tier) -> u64 {
        space(tier).n() * TMAX + n_templates()
    }
    fn chunk(&self, _t: Tier) -> u64 {
        400
    }
    fn recycle_after(&self) -> u64 {
        40_000
    }
    fn run_case(&self, tier: Tier, idx: u64) -> CaseOut {
        let nfam = space(tier).n() * TMAX;
        let (src, v, mut tags, family, inputs) = if idx >= nfam {
            let (base, transformed, what, kind) = template_case(idx - nfam);
            let name = what.rsplit(' ').next().unwrap().to_string();
            let vtags = if kind == "rename" { vec!["rename".into(), "rename_to_name_used_elsewhere".into(), format!("rename_to_{name}")] } else { vec![kind.to_string(), "hand_written_pair".into()] };
            (base, xform::Variant { source: transformed, kind, what, tags: vtags }, vec!["template".to_string()], "template", 1usize)
        } else {
            let (base, t) = (idx / TMAX, idx % TMAX);
            let (_, g) = space(tier).get(base);
            let Some(g) = g else {
                return CaseOut { key: idx, nontrivial: false, outcome: "invalid_index".into(), ..Default::default() };
            };
            // single-gap layout deviations: for the one-operation programs in the quick tier, for all in the thorough tier
            let gaps = tier == Tier::Thorough || g.ops.len() <= 1;
            let Some(v) = xform::nth_with(&g.prog, t, gaps) else {
                return CaseOut { key: idx, nontrivial: false, outcome: "no_such_transformation".into(), ..Default::default() };
            };
            (g.source(), v, g.tags(), g.family, g.inputs)
        };
        tags.extend(v.tags.iter().cloned());
        let mut fails = vec![];
        let backends: &[Backend] = if idx % 16 == 0 || idx >= nfam { &[Backend::Vm, Backend::Wasm] } else { &[Backend::Vm] };
        let mut outcome = "same";
        let mut nontrivial = false;
        for &b in backends {
            let a = observe(b, &src, inputs);
            let c = observe(b, &v.source, inputs);
            match (&a, &c) {
                (Ok(x), Ok(y)) => {
                    nontrivial = true;
                    if let Some((_, d)) = first_diff(x, y, bits_eq) {
                        outcome = "differs";
                        fails.push(Fail { clause: format!("{}_output_changed_by_{}", b.name(), v.kind), detail: format!("{}: {d} (base vs transformed)", v.what) });
                    }
                }
                (Err(RunErr::Compile(_)), Err(RunErr::Compile(_))) => outcome = "both_rejected",
                (Err(RunErr::Crash(_)), Err(RunErr::Crash(_))) => outcome = "both_crash",
                _ => {
                    outcome = "differs";
                    let why = match &c {
                        Err(RunErr::Compile(es)) => es.join(" | "),
                        Err(RunErr::Crash(m)) => m.clone(),
                        Ok(_) => match &a {
                            Err(RunErr::Compile(es)) => es.join(" | "),
                            Err(RunErr::Crash(m)) => m.clone(),
                            _ => String::new(),
                        },
                    };
                    fails.push(Fail { clause: format!("{}_acceptance_changed_by_{}:{}->{}", b.name(), v.kind, label(&a), label(&c)), detail: format!("{}: {}", v.what, why.chars().take(300).collect::<String>()) });
                }
            }
        }
        if std::env::var("VERIF_C16_DEBUG").is_ok() && tags.iter().any(|t| t == "line_break_before_postfix") && fails.is_empty() {
            eprintln!("TAGGED-BUT-PASSES idx={idx} {} :: {}", v.what, v.source.replace('\n', "\\n"));
        }
        CaseOut {
            key: fnv(v.source.as_bytes()),
            nontrivial,
            outcome: outcome.into(),
            fails,
            tags,
            repr: json!({"family": family, "transformation": v.kind, "what": v.what, "base_source": src, "transformed_source": v.source.chars().take(1500).collect::<String>()}),
            counters: if idx < nfam && idx % TMAX == TMAX - 1 { vec![(format!("kind_{}", v.kind), 1), ("transformations_beyond_tmax".into(), 1)] } else { vec![(format!("kind_{}", v.kind), 1)] },
        }
    }
    fn describe_case(&self, tier: Tier, idx: u64) -> (Value, Vec<String>) {
        if idx >= space(tier).n() * TMAX {
            let (b, _, what, kind) = template_case(idx - space(tier).n() * TMAX);
            return (json!({"transformation": kind, "what": what, "base_source": b}), vec!["template".into()]);
        }
        let (base, t) = (idx / TMAX, idx % TMAX);
        if let (_, Some(g)) = space(tier).get(base) {
            if let Some(v) = xform::nth_with(&g.prog, t, tier == Tier::Thorough || g.ops.len() <= 1) {
                let mut tags = g.tags();
                tags.extend(v.tags);
                return (json!({"transformation": v.kind, "what": v.what, "base_source": g.source()}), tags);
            }
        }
        (json!({"idx": idx}), vec![])
    }
    fn crash_clause(&self) -> &'static str {
        "process_crash_or_hang"
    }
    fn describe(&self, tier: Tier) -> Descr {
        Descr {
            rule: format!(
                "for every program of the families {} every single transformation: each user identifier (function, parameter, let-bound name) renamed to each of {} adversarial names (compiler-generated-looking, non-ASCII, 300 characters); each expression node wrapped in 1, 2 and 21 pairs of parentheses; {} layout/comment variants of the printed text; the inferred `:float` annotation added to each parameter / let binder whose type the builder knows; plus hand-written module / record-update templates in which one local is renamed to every other name of the program it does not capture (sibling and parent-module functions, module names, desugaring temporaries). Base and transformed text are compiled and run for {N} samples on the VM (every 16th case also on WASM): same accept/reject, bit-identical outputs. non-trivial = both ran.",
                space(tier).describe(),
                xform::NAMES.len(),
                xform::LAYOUTS.len()
            ),
            assumptions: vec!["transformations are applied to the harness's AST / printed text, not by the compiler".into()],
            bounds: json!({"families": space(tier).describe(), "samples": N, "deviations": 1}),
            shape: "E",
        }
    }
    fn vacuity(&self, _t: Tier, c: &BTreeMap<String, u64>) -> Vec<String> {
        let mut v: Vec<String> = ["kind_rename", "kind_parens", "kind_layout", "kind_gap", "kind_annotation"].iter().filter(|k| c.get(**k).copied().unwrap_or(0) == 0).map(|k| format!("{k} empty")).collect();
        if c.get("transformations_beyond_tmax").copied().unwrap_or(0) > 0 {
            v.push("a program has more transformations than TMAX: some were not explored".into());
        }
        v
    }
}
