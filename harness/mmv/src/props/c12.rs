//! C12 — long-running programs do not accumulate closures or heap objects: the numbers of live
//! closures and heap objects after a dsp call are the same after sample N, 2N and 3N, and no
//! closure / heap handle is used after release (bounds hooks).

use crate::engine::*;
use crate::pc::*;
use crate::run::{Backend, Run, RunErr};
use mimium_audiodriver::driver::VmDspRuntime;
use serde_json::{Value, json};
use std::collections::BTreeMap;
use std::sync::OnceLock;

pub struct C12;

fn space(tier: Tier) -> &'static Space {
    static Q: OnceLock<Space> = OnceLock::new();
    static T: OnceLock<Space> = OnceLock::new();
    match tier {
        Tier::Quick => Q.get_or_init(|| Space::new(&[("FC", 3), ("FB", 3), ("FT", 2), ("FA", 2), ("FU", 0), ("FL", 2), ("FW", 0)])),
        Tier::Thorough => T.get_or_init(|| Space::new(&[("FC", 4), ("FB", 4), ("FT", 3), ("FA", 3), ("FS", 2), ("FU", 0), ("FL", 3), ("FW", 0)])),
    }
}
fn period(tier: Tier) -> usize {
    match tier {
        Tier::Quick => 12,
        Tier::Thorough => 48,
    }
}

fn counts(r: &Run) -> Option<(usize, usize)> {
    match r {
        Run::Vm(v) => v.rd.downcast_runtime_ref::<VmDspRuntime>().map(|rt| (rt.vm.closures.len(), rt.vm.heap.len())),
        _ => None,
    }
}

impl Prop for C12 {
    fn id(&self) -> &'static str {
        "C12"
    }
    fn n_cases(&self, tier: Tier) -> u64 {
        space(tier).n()
    }
    fn chunk(&self, _t: Tier) -> u64 {
        200
    }
    fn recycle_after(&self) -> u64 {
        20_000
    }
    fn run_case(&self, tier: Tier, idx: u64) -> CaseOut {
        let (fname, g) = space(tier).get(idx);
        let Some(g) = g else {
            return CaseOut { key: idx, nontrivial: false, outcome: "invalid_index".into(), counters: vec![(format!("invalid_{fname}"), 1)], ..Default::default() };
        };
        let src = g.source();
        let tags = g.tags();
        let n = period(tier);
        let mut fails = vec![];
        let mut outcome = "steady".to_string();
        let mut maxc = (0usize, 0usize);
        let inputs = inputs_for(0, g.inputs);
        match Run::start(Backend::Vm, &src, ["FT", "FU", "FL", "FW"].contains(&g.family)) {
            Err(RunErr::Compile(_)) => outcome = "rejected".into(),
            Err(RunErr::Crash(m)) => outcome = format!("start_crash_{}", crash_label(&m)),
            Ok(mut r) => {
                let mut series: Vec<(usize, usize)> = vec![];
                for t in 0..3 * n {
                    match r.step(t as u64, &inputs(t)) {
                        Ok(_) => {}
                        Err(RunErr::Crash(m)) => {
                            // a use-after-release shows up through the handle-validity hooks
                            if m.contains("closure handle") || m.contains("Invalid") || m.contains("heap") {
                                fails.push(Fail { clause: "use_after_release_or_invalid_handle".into(), detail: format!("sample {t}: {m}") });
                            }
                            outcome = format!("run_crash_{}", crash_label(&m));
                            break;
                        }
                        Err(_) => break,
                    }
                    let c = counts(&r).unwrap_or((0, 0));
                    maxc = (maxc.0.max(c.0), maxc.1.max(c.1));
                    series.push(c);
                }
                if series.len() == 3 * n {
                    let (a, b, c) = (series[n - 1], series[2 * n - 1], series[3 * n - 1]);
                    if !(a == b && b == c) {
                        outcome = "accumulates".into();
                        if a.0 != b.0 || b.0 != c.0 {
                            fails.push(Fail { clause: "live_closures_grow".into(), detail: format!("live closures after sample {n}/{}/{}: {}/{}/{}; series head {:?}", 2 * n, 3 * n, a.0, b.0, c.0, &series[..8.min(series.len())]) });
                        }
                        if a.1 != b.1 || b.1 != c.1 {
                            fails.push(Fail { clause: "heap_objects_grow".into(), detail: format!("heap objects after sample {n}/{}/{}: {}/{}/{}; series head {:?}", 2 * n, 3 * n, a.1, b.1, c.1, &series[..8.min(series.len())]) });
                        }
                    }
                }
            }
        }
        CaseOut {
            key: fnv(src.as_bytes()),
            nontrivial: maxc.0 + maxc.1 > 0,
            outcome,
            fails,
            tags,
            repr: gen_repr(&g, &src),
            counters: vec![(format!("family_{}", g.family), 1), ("max_live_closures".into(), maxc.0 as u64), ("max_heap_objects".into(), maxc.1 as u64)],
        }
    }
    fn describe_case(&self, tier: Tier, idx: u64) -> (Value, Vec<String>) {
        match space(tier).get(idx).1 {
            Some(g) => (gen_repr(&g, &g.source()), g.tags()),
            None => (json!({"idx": idx}), vec![]),
        }
    }
    fn crash_clause(&self) -> &'static str {
        "process_crash_or_hang"
    }
    fn describe(&self, tier: Tier) -> Descr {
        let n = period(tier);
        Descr {
            rule: format!(
                "every program of the families {} (closures: capture/assign/escape/factories/HOFs; boxed recursive lists: construction, sharing, matching, capture in closures, tuples, recursive builders; self-rescheduling tasks; aggregates) run on the VM for {} samples; Machine.closures.len() and Machine.heap.len() sampled after every dsp call must be equal after samples {n}, {} and {}; a handle-validity hook report or 'Invalid ...' panic is a use-after-release. distinct = FNV-64 of source; non-trivial = the program had at least one live closure or heap object at some sample.",
                space(tier).describe(),
                3 * n,
                2 * n,
                3 * n
            ),
            assumptions: vec!["VM only (the property's counters are the VM's closure and heap storages)".into(), "programs that crash for other reasons are left to C03".into()],
            bounds: json!({"families": space(tier).describe(), "samples": 3 * n}),
            shape: "E",
        }
    }
    fn vacuity(&self, _t: Tier, c: &BTreeMap<String, u64>) -> Vec<String> {
        let mut v: Vec<String> = ["family_FC", "family_FB", "family_FT"].iter().filter(|k| c.get(**k).copied().unwrap_or(0) == 0).map(|k| format!("{k} empty")).collect();
        if c.get("max_heap_objects").copied().unwrap_or(0) == 0 {
            v.push("no program ever had a heap object".into());
        }
        if c.get("max_live_closures").copied().unwrap_or(0) == 0 {
            v.push("no program ever had a live closure".into());
        }
        v
    }
}
