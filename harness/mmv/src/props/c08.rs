//! C08 — state migration plans are well-formed and keep everything that survives.
//!
//! Shape E: all ordered pairs of state layouts below a size bound, run through the
//! real `state_tree::build_state_storage_patch_plan` / `apply_state_storage_patch_plan`.

use crate::engine::*;
use serde_json::{Value, json};
use state_tree::tree::StateTreeSkeleton as Sk;
use state_tree::{apply_state_storage_patch_plan, build_state_storage_patch_plan};
use std::collections::{BTreeMap, HashMap};
use std::sync::OnceLock;

#[derive(Clone, Debug, PartialEq, Eq, Hash, PartialOrd, Ord)]
pub enum T {
    Mem(u64),
    Feed(u64),
    Delay(u64),
    Call(Vec<T>),
}
impl T {
    pub fn to_sk(&self) -> Sk<u64> {
        match self {
            T::Mem(w) => Sk::Mem(*w),
            T::Feed(w) => Sk::Feed(*w),
            T::Delay(l) => Sk::Delay { len: *l },
            T::Call(c) => Sk::FnCall(c.iter().map(|x| Box::new(x.to_sk())).collect()),
        }
    }
    pub fn size(&self) -> usize {
        match self {
            T::Mem(w) | T::Feed(w) => *w as usize,
            T::Delay(l) => *l as usize + 2,
            T::Call(c) => c.iter().map(|x| x.size()).sum(),
        }
    }
    pub fn show(&self) -> String {
        match self {
            T::Mem(w) => format!("Mem{w}"),
            T::Feed(w) => format!("Feed{w}"),
            T::Delay(l) => format!("Delay{l}"),
            T::Call(c) => format!("[{}]", c.iter().map(|x| x.show()).collect::<Vec<_>>().join(",")),
        }
    }
    fn leaves(&self) -> usize {
        match self {
            T::Call(c) => c.iter().map(|x| x.leaves()).sum(),
            _ => 1,
        }
    }
    fn calls(&self) -> usize {
        match self {
            T::Call(c) => 1 + c.iter().map(|x| x.calls()).sum::<usize>(),
            _ => 0,
        }
    }
    /// all nodes as (path, address, size, &node), pre-order
    pub fn nodes(&self) -> Vec<(Vec<usize>, usize, &T)> {
        let mut out = vec![];
        fn rec<'a>(t: &'a T, path: &mut Vec<usize>, addr: usize, out: &mut Vec<(Vec<usize>, usize, &'a T)>) {
            out.push((path.clone(), addr, t));
            if let T::Call(c) = t {
                let mut a = addr;
                for (i, ch) in c.iter().enumerate() {
                    path.push(i);
                    rec(ch, path, a, out);
                    path.pop();
                    a += ch.size();
                }
            }
        }
        rec(self, &mut vec![], 0, &mut out);
        out
    }
    fn remove_paths(&self, paths: &[Vec<usize>]) -> T {
        fn rec(t: &T, cur: &mut Vec<usize>, paths: &[Vec<usize>]) -> Option<T> {
            if paths.iter().any(|p| p == cur) {
                return None;
            }
            match t {
                T::Call(c) => {
                    let mut v = vec![];
                    for (i, ch) in c.iter().enumerate() {
                        cur.push(i);
                        if let Some(x) = rec(ch, cur, paths) {
                            v.push(x);
                        }
                        cur.pop();
                    }
                    Some(T::Call(v))
                }
                x => Some(x.clone()),
            }
        }
        rec(self, &mut vec![], paths).unwrap()
    }
}

const LEAVES: [T; 5] = [T::Mem(1), T::Feed(1), T::Feed(2), T::Delay(1), T::Delay(2)];

/// all `Call` trees with nesting depth <= depth, arity <= 3, leaves <= ml, calls <= mc
fn gen_calls(depth: usize, ml: usize, mc: usize) -> Vec<T> {
    gen_calls_with(&LEAVES, 3, depth, ml, mc)
}

fn gen_calls_with(alpha: &[T], arity: usize, depth: usize, ml: usize, mc: usize) -> Vec<T> {
    // children sequences under budget
    #[allow(clippy::too_many_arguments)]
    fn seqs(alpha: &[T], arity: usize, depth: usize, arity_left: usize, ml: usize, mc: usize, out: &mut Vec<Vec<T>>, cur: &mut Vec<T>) {
        out.push(cur.clone());
        if arity_left == 0 {
            return;
        }
        // next child: leaf
        if ml >= 1 {
            for l in alpha.iter() {
                cur.push(l.clone());
                seqs(alpha, arity, depth, arity_left - 1, ml - 1, mc, out, cur);
                cur.pop();
            }
        }
        // next child: call
        if depth >= 1 && mc >= 1 {
            for sub in gen_calls_with(alpha, arity, depth - 1, ml, mc) {
                let (l, c) = (sub.leaves(), sub.calls());
                if l <= ml && c <= mc {
                    cur.push(sub);
                    seqs(alpha, arity, depth, arity_left - 1, ml - l, mc - c, out, cur);
                    cur.pop();
                }
            }
        }
    }
    if mc == 0 {
        return vec![];
    }
    let mut out = vec![];
    seqs(alpha, arity, depth, arity, ml, mc - 1, &mut out, &mut vec![]);
    // the compiler never publishes an empty call node below the root (a stateless call
    // contributes no node, mirgen::emit_fncall); the empty *root* (stateless dsp) is added by the caller
    out.into_iter().filter(|c| !c.is_empty()).map(T::Call).collect()
}

pub struct Space {
    /// family A: 5 leaf kinds, arity <= 3, call nesting <= 3
    pub trees: Vec<T>,
    /// family W ("wide"): leaf kinds {Mem1, Feed1}, arity <= 5, call nesting <= 2
    pub wide: Vec<T>,
    /// family D ("deep"): leaf kinds {Mem1, Feed1, Delay1}, arity <= 2, call nesting <= 5 (chains of calls,
    /// as produced by a stateful function reached through several levels of wrappers)
    pub deep: Vec<T>,
}
impl Space {
    pub fn n_pairs(&self) -> u64 {
        (self.trees.len() * self.trees.len() + self.wide.len() * self.wide.len() + self.deep.len() * self.deep.len()) as u64
    }
    pub fn pair(&self, idx: u64) -> (&T, &T, &'static str) {
        let na = (self.trees.len() * self.trees.len()) as u64;
        if idx < na {
            let n = self.trees.len() as u64;
            (&self.trees[(idx / n) as usize], &self.trees[(idx % n) as usize], "A")
        } else if idx < na + (self.wide.len() * self.wide.len()) as u64 {
            let k = idx - na;
            let n = self.wide.len() as u64;
            (&self.wide[(k / n) as usize], &self.wide[(k % n) as usize], "W")
        } else {
            let k = idx - na - (self.wide.len() * self.wide.len()) as u64;
            let n = self.deep.len() as u64;
            (&self.deep[(k / n) as usize], &self.deep[(k % n) as usize], "D")
        }
    }
}

fn space(tier: Tier) -> &'static Space {
    static Q: OnceLock<Space> = OnceLock::new();
    static TH: OnceLock<Space> = OnceLock::new();
    let (cell, ml, mc, wl) = match tier {
        Tier::Quick => (&Q, 3, 3, 5),
        Tier::Thorough => (&TH, 4, 3, 6),
    };
    cell.get_or_init(|| {
        let mut trees = gen_calls(2, ml, mc);
        trees.push(T::Call(vec![]));
        trees.sort();
        trees.dedup();
        let mut wide = gen_calls_with(&[T::Mem(1), T::Feed(1)], 5, 1, wl, 3);
        wide.push(T::Call(vec![]));
        wide.sort();
        wide.dedup();
        let dl = if tier == Tier::Quick { 2 } else { 3 };
        let mut deep = gen_calls_with(&[T::Mem(1), T::Feed(1), T::Delay(1)], 2, 4, dl, 5);
        deep.push(T::Call(vec![]));
        deep.sort();
        deep.dedup();
        Space { trees, wide, deep }
    })
}

fn tagged(n: usize) -> Vec<u64> {
    (0..n as u64).map(|i| 1000 + i).collect()
}

pub struct PlanView {
    pub none: bool,
    pub total: usize,
    pub patches: Vec<(usize, usize, usize)>,
    pub newst: Vec<u64>,
}

pub fn run_plan(old: &T, new: &T) -> Result<PlanView, String> {
    let (o, n) = (old.to_sk(), new.to_sk());
    let plan = catch(|| build_state_storage_patch_plan(o, n))?;
    match plan {
        None => Ok(PlanView {
            none: true,
            total: new.size(),
            patches: vec![],
            newst: vec![],
        }),
        Some(p) => {
            let olds = tagged(old.size());
            let mut patches: Vec<_> = p.patches.iter().map(|c| (c.src_addr, c.dst_addr, c.size)).collect();
            patches.sort();
            // bounds are checked by the oracle *before* applying (apply would panic / the
            // real callers index raw storage)
            let inb = patches
                .iter()
                .all(|(s, d, z)| s + z <= olds.len() && d + z <= p.total_size);
            let newst = if inb {
                catch(|| apply_state_storage_patch_plan(&olds, &p))?
            } else {
                vec![]
            };
            Ok(PlanView {
                none: false,
                total: p.total_size,
                patches,
                newst,
            })
        }
    }
}

/// Clause 1: well-formedness of the plan for an arbitrary ordered pair.
pub fn check_wellformed(old: &T, new: &T, pv: &PlanView, fails: &mut Vec<Fail>) {
    let mut f = |c: &str, d: String| {
        fails.push(Fail {
            clause: c.into(),
            detail: d,
        })
    };
    if old == new {
        if !pv.none {
            // accepted only if the plan is an identity copy
            let olds = tagged(old.size());
            if pv.newst != olds {
                f("identical_not_noop", format!("patches={:?}", pv.patches));
            }
        }
        return;
    }
    if pv.none {
        f("different_layouts_no_plan", "None returned for different layouts".into());
        return;
    }
    if pv.total != new.size() {
        f("total_size", format!("plan.total_size={} new size={}", pv.total, new.size()));
    }
    let (osz, nsz) = (old.size(), new.size());
    let on = old.nodes();
    let nn = new.nodes();
    let mut located: Vec<Option<(Vec<usize>, Vec<usize>)>> = vec![];
    for &(s, d, z) in &pv.patches {
        if s + z > osz {
            f("src_out_of_bounds", format!("patch {s}->{d} size {z}, old size {osz}"));
            located.push(None);
            continue;
        }
        if d + z > nsz {
            f("dst_out_of_bounds", format!("patch {s}->{d} size {z}, new size {nsz}"));
            located.push(None);
            continue;
        }
        // a pair of identically shaped subtrees at these addresses
        let mut found = None;
        'o: for (op, oa, ot) in &on {
            if *oa == s && ot.size() == z {
                for (np, na, nt) in &nn {
                    if *na == d && nt.size() == z && nt == ot {
                        found = Some((op.clone(), np.clone()));
                        break 'o;
                    }
                }
            }
        }
        if found.is_none() {
            f(
                "patch_not_between_identical_subtrees",
                format!("patch {s}->{d} size {z}"),
            );
        }
        located.push(found);
    }
    // destination ranges pairwise disjoint
    let nz: Vec<_> = pv.patches.iter().filter(|p| p.2 > 0).collect();
    for i in 0..nz.len() {
        for j in i + 1..nz.len() {
            let (a, b) = (nz[i], nz[j]);
            if a.1 < b.1 + b.2 && b.1 < a.1 + a.2 {
                f("dst_overlap", format!("{a:?} and {b:?}"));
            }
        }
    }
    // sibling order: two patches whose sources are siblings and whose destinations are siblings
    for i in 0..pv.patches.len() {
        for j in 0..pv.patches.len() {
            if i == j || pv.patches[i].2 == 0 || pv.patches[j].2 == 0 {
                continue;
            }
            if let (Some((op1, np1)), Some((op2, np2))) = (&located[i], &located[j]) {
                if op1.is_empty() || op2.is_empty() || np1.is_empty() || np2.is_empty() {
                    continue;
                }
                let (ol, nl) = (op1.len() - 1, np1.len() - 1);
                if op2.len() - 1 == ol && np2.len() - 1 == nl && op1[..ol] == op2[..ol] && np1[..nl] == np2[..nl] {
                    if (op1[ol] < op2[ol]) != (np1[nl] < np2[nl]) {
                        f(
                            "sibling_order",
                            format!("{:?} / {:?}", pv.patches[i], pv.patches[j]),
                        );
                    }
                }
            }
        }
    }
    // applied storage: patches carried, everything else zero
    if !pv.newst.is_empty() || nsz == 0 {
        if pv.newst.len() != nsz {
            f("applied_len", format!("{} vs {}", pv.newst.len(), nsz));
            return;
        }
        let olds = tagged(osz);
        let mut covered = vec![false; nsz];
        for &(s, d, z) in &pv.patches {
            for k in 0..z {
                covered[d + k] = true;
                if pv.newst[d + k] != olds[s + k] {
                    f("apply_wrong_word", format!("dst {} has {} expected {}", d + k, pv.newst[d + k], olds[s + k]));
                }
            }
        }
        for (k, c) in covered.iter().enumerate() {
            if !c && pv.newst[k] != 0 {
                f("nondst_word_not_zero", format!("word {k} = {}", pv.newst[k]));
            }
        }
    }
}

/// All scripts (D ⊆ nodes(old), I ⊆ nodes(new), non-nested, |D|+|I| <= k) with old∖D == new∖I,
/// restricted to those with the minimal number of edits.
fn scripts(old: &T, new: &T, k: usize) -> Vec<(Vec<Vec<usize>>, Vec<Vec<usize>>)> {
    fn subsets(t: &T, k: usize) -> Vec<Vec<Vec<usize>>> {
        let paths: Vec<Vec<usize>> = t.nodes().into_iter().filter(|n| !n.0.is_empty()).map(|n| n.0).collect();
        let mut out = vec![];
        fn rec(paths: &[Vec<usize>], start: usize, k: usize, cur: &mut Vec<Vec<usize>>, out: &mut Vec<Vec<Vec<usize>>>) {
            out.push(cur.clone());
            if cur.len() == k {
                return;
            }
            for i in start..paths.len() {
                let p = &paths[i];
                if cur.iter().any(|q| p.starts_with(q) || q.starts_with(p)) {
                    continue;
                }
                cur.push(p.clone());
                rec(paths, i + 1, k, cur, out);
                cur.pop();
            }
        }
        rec(&paths, 0, k, &mut vec![], &mut out);
        out
    }
    let ds = subsets(old, k);
    let is = subsets(new, k);
    // new∖I keyed by the resulting tree
    let mut by_tree: HashMap<T, Vec<usize>> = HashMap::new();
    for (ii, i) in is.iter().enumerate() {
        by_tree.entry(new.remove_paths(i)).or_default().push(ii);
    }
    let mut best = usize::MAX;
    let mut out = vec![];
    for d in &ds {
        if d.len() > best {
            continue;
        }
        let od = old.remove_paths(d);
        if let Some(list) = by_tree.get(&od) {
            for &ii in list {
                let c = d.len() + is[ii].len();
                if c > k || c > best {
                    continue;
                }
                if c < best {
                    best = c;
                    out.clear();
                }
                out.push((d.clone(), is[ii].clone()));
            }
        }
    }
    out
}

/// Surviving maximal subtrees of a script: pairs (old path, new path) of nodes that are
/// untouched (no deleted/inserted descendant) and whose parent is touched or the root.
fn survivors(old: &T, new: &T, d: &[Vec<usize>], i: &[Vec<usize>]) -> Vec<(Vec<usize>, Vec<usize>)> {
    // walk both trees in parallel skipping deleted / inserted children
    fn touched(path: &[usize], marks: &[Vec<usize>]) -> bool {
        marks.iter().any(|m| m.starts_with(path) && m.len() > path.len())
    }
    fn rec(
        o: &T,
        n: &T,
        op: &mut Vec<usize>,
        np: &mut Vec<usize>,
        d: &[Vec<usize>],
        i: &[Vec<usize>],
        out: &mut Vec<(Vec<usize>, Vec<usize>)>,
    ) {
        if !touched(op, d) && !touched(np, i) {
            out.push((op.clone(), np.clone()));
            return;
        }
        if let (T::Call(oc), T::Call(nc)) = (o, n) {
            let mut nj = 0;
            for (oi, och) in oc.iter().enumerate() {
                op.push(oi);
                if d.iter().any(|m| m == op) {
                    op.pop();
                    continue;
                }
                // skip inserted children on the new side
                loop {
                    np.push(nj);
                    if i.iter().any(|m| m == np) {
                        np.pop();
                        nj += 1;
                    } else {
                        break;
                    }
                }
                rec(och, &nc[nj], op, np, d, i, out);
                np.pop();
                op.pop();
                nj += 1;
            }
        }
    }
    let mut out = vec![];
    rec(old, new, &mut vec![], &mut vec![], d, i, &mut out);
    out
}

fn node_at<'a>(t: &'a T, path: &[usize]) -> &'a T {
    let mut cur = t;
    for &i in path {
        if let T::Call(c) = cur {
            cur = &c[i];
        }
    }
    cur
}
fn leaf_shapes(t: &T, out: &mut Vec<T>) {
    match t {
        T::Call(c) => c.iter().for_each(|x| leaf_shapes(x, out)),
        x => out.push(x.clone()),
    }
}

fn addr_of(t: &T, path: &[usize]) -> (usize, usize) {
    let mut a = 0;
    let mut cur = t;
    for &i in path {
        if let T::Call(c) = cur {
            for ch in &c[..i] {
                a += ch.size();
            }
            cur = &c[i];
        }
    }
    (a, cur.size())
}

/// Clause 2: if `new` is derivable from `old` by <= 2 subtree deletions/insertions, then for at
/// least one such script every word of every surviving subtree is carried over.
pub fn check_survival(old: &T, new: &T, pv: &PlanView, k: usize, fails: &mut Vec<Fail>, tags: &mut Vec<String>) -> usize {
    if old == new || pv.none {
        return 0;
    }
    let mut sc = scripts(old, new, k);
    if sc.is_empty() {
        return 0;
    }
    // (scripts() already keeps only the simplest explanations: minimal number of edits)
    sc.retain(|_| true);
    if pv.newst.len() != new.size() {
        return sc.len(); // clause 1 already reported
    }
    let olds = tagged(old.size());
    let mut best: Option<String> = None;
    let mut max_surv_cells = 0usize;
    let mut min_surv_subtrees = usize::MAX;
    let mut shares_shape_in_all = true;
    let mut ok = false;
    for (d, i) in &sc {
        let surv = survivors(old, new, d, i);
        let mut lost = vec![];
        let mut cells = 0;
        let mut surv_shapes: Vec<T> = vec![];
        for (op, np) in &surv {
            let (oa, oz) = addr_of(old, op);
            let (na, nz) = addr_of(new, np);
            debug_assert_eq!(oz, nz);
            let node = node_at(old, op);
            cells += node.leaves();
            leaf_shapes(node, &mut surv_shapes);
            if pv.newst[na..na + nz] != olds[oa..oa + oz] {
                lost.push(format!("old{op:?}@{oa}+{oz}->new{np:?}@{na}"));
            }
        }
        let nsub = surv.iter().filter(|(op, _)| node_at(old, op).size() > 0).count();
        if cells > max_surv_cells || min_surv_subtrees == usize::MAX {
            max_surv_cells = cells;
            min_surv_subtrees = nsub;
        } else if cells == max_surv_cells {
            min_surv_subtrees = min_surv_subtrees.min(nsub);
        }
        let (mut dsh, mut ish) = (vec![], vec![]);
        for p in d {
            leaf_shapes(node_at(old, p), &mut dsh);
        }
        for p in i {
            leaf_shapes(node_at(new, p), &mut ish);
        }
        let amb = dsh.iter().any(|e| surv_shapes.contains(e) || ish.contains(e))
            || ish.iter().any(|e| surv_shapes.contains(e));
        if !amb {
            shares_shape_in_all = false;
        }
        if lost.is_empty() {
            ok = true;
        }
        if best.is_none() && !lost.is_empty() {
            best = Some(format!("script del={d:?} ins={i:?}: lost {}", lost.join(" ")));
        }
    }
    // how many cells does the plan carry? (leaves of the old subtrees that the patches copy)
    let on = old.nodes();
    let mut carried = 0usize;
    for &(s, _d, z) in &pv.patches {
        // leaves fully inside [s, s+z)
        for (_, a, t) in &on {
            if !matches!(t, T::Call(_)) && *a >= s && *a + t.size() <= s + z && t.size() > 0 {
                carried += 1;
            }
        }
    }
    if shares_shape_in_all {
        tags.push("edit_ambiguous_cell_shape".into());
    }
    if ok {
        return sc.len();
    }
    let npatches = pv.patches.iter().filter(|p| p.2 > 0).count();
    let clause = if carried < max_surv_cells {
        "surviving_subtree_not_carried_fewer_cells"
    } else if carried > max_surv_cells {
        // the plan follows a costlier explanation that keeps more cells than the simplest one
        "surviving_subtree_not_carried_more_cells"
    } else if npatches > min_surv_subtrees {
        // as many cells as the simplest explanation keeps, but in more (smaller) pieces:
        // a whole surviving subtree was split up / moved into a partial match
        "surviving_subtree_not_carried_fragmented"
    } else {
        "surviving_subtree_not_carried_equal_cells"
    };
    fails.push(Fail {
        clause: clause.into(),
        detail: format!(
            "no minimal script (of <= {k} edits) explains the plan {:?} (carries {carried} cells, best script keeps {max_surv_cells}); e.g. {}",
            pv.patches,
            best.unwrap_or_default()
        ),
    });
    sc.len()
}

pub struct C08;

impl Prop for C08 {
    fn id(&self) -> &'static str {
        "C08"
    }
    fn n_cases(&self, tier: Tier) -> u64 {
        space(tier).n_pairs()
    }
    fn chunk(&self, _t: Tier) -> u64 {
        20_000
    }
    fn recycle_after(&self) -> u64 {
        50_000_000
    }
    fn run_case(&self, tier: Tier, idx: u64) -> CaseOut {
        let sp = space(tier);
        let (old, new, fam) = sp.pair(idx);
        let mut fails = vec![];
        let mut counters = vec![];
        let mut tags = vec![];
        let outcome;
        match run_plan(old, new) {
            Err(msg) => {
                fails.push(Fail {
                    clause: "panic".into(),
                    detail: msg,
                });
                outcome = "panic".to_string();
            }
            Ok(pv) => {
                check_wellformed(old, new, &pv, &mut fails);
                let ns = check_survival(old, new, &pv, if fam == "W" { 4 } else { 3 }, &mut fails, &mut tags);
                if ns > 0 {
                    counters.push(("edit_script_pairs".to_string(), 1));
                    counters.push(("explaining_scripts".to_string(), ns as u64));
                }
                outcome = if pv.none {
                    "noop".into()
                } else {
                    format!("patches={}{}", pv.patches.len().min(4), if ns > 0 { "+script" } else { "" })
                };
            }
        }
        let repr = json!({"old": old.show(), "new": new.show(), "family": fam});
        counters.push((format!("family_{fam}"), 1));
        CaseOut {
            key: idx,
            nontrivial: old != new,
            outcome,
            fails,
            tags,
            repr,
            counters,
        }
    }
    fn describe(&self, tier: Tier) -> Descr {
        let sp = space(tier);
        let (ml, mc, wl) = match tier {
            Tier::Quick => (3, 3, 5),
            Tier::Thorough => (4, 3, 6),
        };
        Descr {
            rule: format!(
                "family A: all ordered pairs (old,new) of the {} state layouts with root FnCall, arity<=3, call nesting<=3, <= {ml} leaves from {{Mem1,Feed1,Feed2,Delay1,Delay2}}, <= {mc} calls; family W (wide): all ordered pairs of the {} layouts with arity<=5, call nesting<=2, <= {wl} leaves from {{Mem1,Feed1}}, <=3 calls; family D (deep): all ordered pairs of the {} layouts with arity<=2, call nesting<=5, <= 5 calls, few leaves from {{Mem1,Feed1,Delay1}} (chains of wrapper calls); pair index is a bijection per family; non-trivial = old != new. \
                 Clause 2 is evaluated on every pair for which some script of <=3 (family A) / <=4 (family W) subtree deletions/insertions maps old to new; only scripts with the minimal number of edits count (counter edit_script_pairs).",
                sp.trees.len(),
                sp.wide.len(),
                sp.deep.len()
            ),
            assumptions: vec![
                "layouts larger than the bound, leaf sizes other than {1,2}, arity > 3 are not covered".into(),
                "clause 2 accepts a plan if it carries all survivors of at least one explaining script among those with the minimal number (<= 2) of subtree deletions/insertions (two minimal scripts explaining the same pair are both accepted)".into(),
            ],
            bounds: json!({"max_leaves": ml, "max_calls": mc, "max_arity": 3, "max_call_nesting": 3, "edit_script_len_family_A": 3, "edit_script_len_family_W": 4, "layouts": sp.trees.len(), "wide_layouts": sp.wide.len(), "wide_max_leaves": wl, "wide_max_arity": 5}),
            shape: "E",
        }
    }
    fn vacuity(&self, _tier: Tier, c: &BTreeMap<String, u64>) -> Vec<String> {
        let mut v = vec![];
        if c.get("edit_script_pairs").copied().unwrap_or(0) == 0 {
            v.push("no pair was explained by an edit script (clause 2 vacuous)".into());
        }
        v
    }
    fn describe_case(&self, tier: Tier, idx: u64) -> (Value, Vec<String>) {
        let sp = space(tier);
        let (old, new, fam) = sp.pair(idx);
        (json!({"old": old.show(), "new": new.show(), "family": fam}), vec![])
    }
}

#[allow(dead_code)]
fn _unused(_: HashMap<u8, u8>) {}

/// debugging aid: parse the `show()` format back ("[[Feed1],Mem1]")
pub fn parse_t(s: &str) -> T {
    fn go(b: &[u8], i: &mut usize) -> T {
        if b[*i] == b'[' {
            *i += 1;
            let mut v = vec![];
            while b[*i] != b']' {
                v.push(go(b, i));
                if b[*i] == b',' {
                    *i += 1;
                }
            }
            *i += 1;
            T::Call(v)
        } else {
            let st = *i;
            while *i < b.len() && b[*i].is_ascii_alphabetic() {
                *i += 1;
            }
            let name = std::str::from_utf8(&b[st..*i]).unwrap().to_string();
            let ns = *i;
            while *i < b.len() && b[*i].is_ascii_digit() {
                *i += 1;
            }
            let n: u64 = std::str::from_utf8(&b[ns..*i]).unwrap().parse().unwrap();
            match name.as_str() {
                "Mem" => T::Mem(n),
                "Feed" => T::Feed(n),
                _ => T::Delay(n),
            }
        }
    }
    go(s.as_bytes(), &mut 0)
}
pub fn debug_pair(old: &str, new: &str) {
    let (o, n) = (parse_t(old), parse_t(new));
    match run_plan(&o, &n) {
        Err(m) => println!("panic {m}"),
        Ok(pv) => {
            println!("none={} total={} patches={:?} newst={:?}", pv.none, pv.total, pv.patches, pv.newst);
            let mut fails = vec![];
            let mut tags = vec![];
            check_wellformed(&o, &n, &pv, &mut fails);
            let ns = check_survival(&o, &n, &pv, 3, &mut fails, &mut tags);
            println!("explaining scripts {ns}; tags {tags:?}");
            for f in fails {
                println!("[{}] {}", f.clause, f.detail);
            }
        }
    }
}
