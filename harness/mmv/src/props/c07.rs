//! C07 — hot-swap after an edit preserves the state of untouched signal paths.
//! Shape S with faults: programs are fixed-arity tuples of independent voices; events are Step,
//! edits (insert / delete / replace a stateful site, change a constant, nest a site in a new
//! helper) each followed by compile + swap, and the fault `Broken` (an edit that does not compile).
//! Expected values are never hand-written: an untouched voice must continue exactly as in the
//! uninterrupted run of the old program, a new voice as in a fresh run started at the swap time.

use crate::engine::*;
use crate::pc::*;
use crate::run::{Backend, Run, RunErr, SwapMode, bits_eq};
use serde_json::{Value, json};
use std::collections::{BTreeMap, HashSet};

pub struct C07;

/// voice menu: (source expression, shape id, helpers needed)
const VOICES: [(&str, &str); 9] = [
    ("0.0", "none"),
    ("cnt(1.0)", "cnt"),
    ("cnt(2.0)", "cnt"),
    ("m(x + now)", "mem"),
    ("dS(now)", "delay3"),
    ("nest(1.0)", "nest"),
    ("(if (x) cnt(1.0) else 0.0)", "cnt"),
    ("wrap(1.0)", "wrapcnt"),
    ("dL(now)", "delay10"),
];
const HELPERS: &str = "fn cnt(p) {\n  self + p\n}\nfn m(p) {\n  mem(p)\n}\nfn dS(p) {\n  delay(3.0, p, 2.0)\n}\nfn dL(p) {\n  delay(10.0, p, 5.0)\n}\nfn nest(p) {\n  cnt(p) + self\n}\nfn wrap(p) {\n  cnt(p)\n}\n";
const M: usize = 3;

fn program(v: &[usize; M]) -> String {
    format!("{HELPERS}fn dsp(x) {{\n  ({}, {}, {})\n}}\n", VOICES[v[0]].0, VOICES[v[1]].0, VOICES[v[2]].0)
}
fn broken(kind: usize, v: &[usize; M]) -> String {
    match kind {
        0 => format!("{HELPERS}fn dsp(x) {{\n  ({}, {}, \n}}\n", VOICES[v[0]].0, VOICES[v[1]].0), // parse error
        _ => format!("{HELPERS}fn dsp(x) {{\n  ({}, {}, cnt(\"s\"))\n}}\n", VOICES[v[0]].0, VOICES[v[1]].0), // type error
    }
}

const NV: u64 = VOICES.len() as u64;
/// case = (old voices, edited slot, new voice | broken kind)
fn n_edits() -> u64 {
    NV + 2 // replace by each voice (incl. same = plain re-swap), + 2 broken kinds
}
fn decode(idx: u64) -> ([usize; M], usize, usize) {
    let e = (idx % n_edits()) as usize;
    let mut i = idx / n_edits();
    let slot = (i % M as u64) as usize;
    i /= M as u64;
    let mut v = [0usize; M];
    for k in 0..M {
        v[k] = (i % NV) as usize;
        i /= NV;
    }
    (v, slot, e)
}
fn params(tier: Tier) -> (usize, Vec<usize>, Vec<(Backend, SwapMode)>) {
    match tier {
        Tier::Quick => (6, vec![0, 2, 5], vec![(Backend::Vm, SwapMode::InProcess), (Backend::Wasm, SwapMode::InProcess), (Backend::Wasm, SwapMode::Subprocess)]),
        Tier::Thorough => (12, (0..=8).collect(), vec![(Backend::Vm, SwapMode::InProcess), (Backend::Wasm, SwapMode::InProcess), (Backend::Wasm, SwapMode::Subprocess)]),
    }
}
/// quick tier: WASM histories only for every 23rd case (wasmtime compile cost)
fn wasm_selected(tier: Tier, idx: u64) -> bool {
    tier == Tier::Thorough || idx % 23 == 0
}

struct Trace {
    out: Vec<Vec<f64>>,
}
fn run_plain(b: Backend, src: &str, t0: usize, t1: usize, stream_i: usize) -> Result<Trace, String> {
    let inputs = inputs_for(stream_i, 1);
    let mut r = Run::start(b, src, false).map_err(|e| format!("start: {e:?}"))?;
    let mut out = vec![];
    for t in t0..t1 {
        out.push(r.step(t as u64, &inputs(t)).map_err(|e| format!("step {t}: {e:?}"))?);
    }
    Ok(Trace { out })
}
/// run old for n steps, swap to new, run until T
/// clause prefix: "vm", "wasm" (payload prepared with the new skeleton) or "wasmsub" (payload prepared the way the CLI
/// does after its compiler subprocess: no skeleton, no signatures)
fn bname(b: Backend, mode: SwapMode) -> &'static str {
    match (b, mode) {
        (Backend::Vm, _) => "vm",
        (Backend::Wasm, SwapMode::InProcess) => "wasm",
        (Backend::Wasm, SwapMode::Subprocess) => "wasmsub",
    }
}
fn run_edit(b: Backend, mode: SwapMode, old: &str, new: &str, n: usize, t: usize, stream_i: usize) -> Result<(Trace, Result<bool, RunErr>), String> {
    let inputs = inputs_for(stream_i, 1);
    let mut r = Run::start(b, old, false).map_err(|e| format!("start: {e:?}"))?;
    let mut out = vec![];
    for k in 0..n {
        out.push(r.step(k as u64, &inputs(k)).map_err(|e| format!("step {k}: {e:?}"))?);
    }
    let sw = r.swap(new, mode);
    if let Err(RunErr::Crash(m)) = &sw {
        return Err(format!("swap crashed after {n} steps: {m}"));
    }
    for k in n..t {
        out.push(r.step(k as u64, &inputs(k)).map_err(|e| format!("step {k} (after swap): {e:?}"))?);
    }
    Ok((Trace { out }, sw))
}
fn chan(tr: &Trace, c: usize) -> Vec<f64> {
    tr.out.iter().map(|o| o.get(c).copied().unwrap_or(f64::NAN)).collect()
}
fn same(a: &[f64], b: &[f64]) -> bool {
    a.len() == b.len() && a.iter().zip(b).all(|(x, y)| bits_eq(*x, *y))
}

// ---- edits *inside* a helper function reached through a chain of stateful calls -------------------
// dsp = (chainK(1.0), <any voice>, <0.0 | cnt(1.0)>); the edit rewrites the innermost function of the chain
// (insert a mem / a delay next to its self cell, or change its constant); every cell the edit left untouched —
// the innermost counter included — must continue.
const DEPTHS: [usize; 4] = [1, 2, 3, 4];
const INNER_EDITS: [(&str, &str); 3] = [
    ("self + p + mem(p) * 0.0", "mem inserted after the self cell"),
    ("delay(3.0, p, 1.0) * 0.0 + self + p", "delay inserted before the use of self"),
    ("self + p * 1.0", "expression changed, cells unchanged"),
];
fn chain_defs(depth: usize, inner_body: &str) -> String {
    // k1 is the innermost function; k<d> calls k<d-1>
    let mut s = format!("fn k1(p) {{\n  {inner_body}\n}}\n");
    for d in 2..=depth {
        s.push_str(&format!("fn k{d}(p) {{\n  k{}(p)\n}}\n", d - 1));
    }
    s
}
/// edits that leave dsp's text alone and add / remove function definitions around it (dsp's place in the program's
/// function table changes): (definitions in front of the helpers old, new, definitions after dsp old, new, what)
const HALF: &str = "fn half(p) {\n  p * 0.5\n}\n";
const ECHO: &str = "fn echo(p) {\n  delay(4.0, p, 2.0) + self\n}\n";
const DEF_EDITS: [(&str, &str, &str, &str, &str); 7] = [
    ("", "H", "", "", "a stateless function definition added in front"),
    ("", "E", "", "", "a stateful function definition added in front"),
    ("H", "", "", "", "a function definition in front removed"),
    ("HE", "", "", "", "two function definitions in front removed"),
    ("", "", "", "H", "a function definition added after dsp"),
    ("H", "E", "", "", "a function definition in front replaced by another"),
    ("", "H", "E", "", "one definition added in front, one after dsp removed"),
];
fn defs(code: &str) -> String {
    code.chars().map(|c| if c == 'H' { HALF } else { ECHO }).collect()
}
fn n_defedits() -> u64 {
    (DEF_EDITS.len() * VOICES.len() * 2) as u64
}
fn n_inner() -> u64 {
    (DEPTHS.len() * INNER_EDITS.len() * VOICES.len() * 2) as u64 + n_defedits()
}
fn inner_case(k: u64) -> (String, String, String, usize) {
    let base = (DEPTHS.len() * INNER_EDITS.len() * VOICES.len() * 2) as u64;
    if k >= base {
        let mut i = (k - base) as usize;
        let third = i % 2;
        i /= 2;
        let v1 = i % VOICES.len();
        i /= VOICES.len();
        let (fo, fnew, ao, an, what) = DEF_EDITS[i];
        let dsp = format!("fn dsp(x) {{\n  (cnt(1.0), {}, {})\n}}\n", VOICES[v1].0, if third == 0 { "0.0" } else { "dL(now)" });
        let old = format!("{}{HELPERS}{dsp}{}", defs(fo), defs(ao));
        let new = format!("{}{HELPERS}{dsp}{}", defs(fnew), defs(an));
        return (old, new, format!("{what}; dsp unchanged: (cnt(1.0), {}, {})", VOICES[v1].0, if third == 0 { "0.0" } else { "dL(now)" }), 0);
    }
    let mut i = k as usize;
    let third = i % 2;
    i /= 2;
    let v1 = i % VOICES.len();
    i /= VOICES.len();
    let ed = i % INNER_EDITS.len();
    i /= INNER_EDITS.len();
    let depth = DEPTHS[i];
    let dsp = format!("fn dsp(x) {{\n  (k{depth}(1.0), {}, {})\n}}\n", VOICES[v1].0, if third == 0 { "0.0" } else { "cnt(1.0)" });
    let old = format!("{HELPERS}{}{dsp}", chain_defs(depth, "self + p"));
    let new = format!("{HELPERS}{}{dsp}", chain_defs(depth, INNER_EDITS[ed].0));
    (old, new, format!("chain of {depth} stateful calls; innermost function edited: {}; other voices {} / {}", INNER_EDITS[ed].1, VOICES[v1].0, if third == 0 { "0.0" } else { "cnt(1.0)" }), depth)
}
// ---- batch edits: one swap whose edit removes two sites before an untouched one and inserts two after it ------------
// old dsp = (a, b, X), new dsp = (X, c, d) - and the mirror image (X, a, b) -> (c, d, X): the untouched site X moves by
// two positions among its siblings although the number of siblings stays the same. X's channel must continue.
/// voices around X (indices into VOICES): none, a counter, a mem, a short delay
const BATCH_OTHERS: [usize; 4] = [0, 1, 3, 4];
fn n_batch() -> u64 {
    // X over the 8 stateful voices x a, b, c, d x 2 directions
    8 * 4u64.pow(4) * 2
}
fn batch_case(k: u64) -> ([usize; M], [usize; M], usize, usize, bool) {
    let mut i = k as usize;
    let mirror = i % 2 == 1;
    i /= 2;
    let mut o = [0usize; 4];
    for slot in o.iter_mut() {
        *slot = BATCH_OTHERS[i % 4];
        i /= 4;
    }
    let x = 1 + i % 8;
    // (old voices, new voices, X's old channel, X's new channel)
    if mirror { ([x, o[0], o[1]], [o[2], o[3], x], 0, 2, true) } else { ([o[0], o[1], x], [x, o[2], o[3]], 2, 0, false) }
}
fn main_cases() -> u64 {
    NV.pow(M as u32) * M as u64 * n_edits()
}

impl C07 {
    fn run_batch(&self, tier: Tier, idx: u64) -> CaseOut {
        let k = idx - main_cases() - n_inner();
        let (ov, nv, xo, xn, mirror) = batch_case(k);
        let xshape = VOICES[ov[xo]].1;
        // only shape-unambiguous edits are judged: no other site, old or new, has X's state shape
        let ambiguous = (0..M).any(|c| (c != xo && VOICES[ov[c]].1 == xshape) || (c != xn && VOICES[nv[c]].1 == xshape))
            // (a counter and a wrapped / nested counter share the cell kind the diff pairs by)
            || (["cnt", "wrapcnt", "nest"].contains(&xshape) && (0..M).any(|c| (c != xo && ["cnt", "wrapcnt", "nest"].contains(&VOICES[ov[c]].1)) || (c != xn && ["cnt", "wrapcnt", "nest"].contains(&VOICES[nv[c]].1))));
        // if a removed site and an inserted one have the same state shape, the diff may pair those two instead - X is then
        // not "in the same relative order among its siblings", and the statement does not say it survives
        let removed: Vec<&str> = (0..M).filter(|&c| c != xo).map(|c| VOICES[ov[c]].1).filter(|s| *s != "none").collect();
        let reordered = (0..M).any(|c| c != xn && removed.contains(&VOICES[nv[c]].1));
        if ambiguous || reordered {
            return CaseOut { key: idx, nontrivial: false, outcome: "ambiguous_pairing_not_judged".into(), ..Default::default() };
        }
        let (old_src, new_src) = (program(&ov), program(&nv));
        let what = format!("batch edit ({}, {}, {}) -> ({}, {}, {}): untouched site `{}` moves from channel {xo} to channel {xn}", VOICES[ov[0]].0, VOICES[ov[1]].0, VOICES[ov[2]].0, VOICES[nv[0]].0, VOICES[nv[1]].0, VOICES[nv[2]].0, VOICES[ov[xo]].0);
        let (t, _, cfgs) = params(tier);
        let swap_times: Vec<usize> = if tier == Tier::Thorough { vec![0, 1, 3, 6, 9] } else { vec![3] };
        let mut fails: Vec<Fail> = vec![];
        let mut traces = 0u64;
        for (b, mode) in cfgs {
            if b == Backend::Wasm && !(tier == Tier::Thorough || k % 23 == 0) {
                continue;
            }
            let Ok(old_full) = run_plain(b, &old_src, 0, t, 0) else { continue };
            for &n in &swap_times {
                traces += 1;
                let label = format!("{} {what}, swapped after {n} steps", bname(b, mode));
                match run_edit(b, mode, &old_src, &new_src, n, t, 0) {
                    Ok((tr, Ok(true))) => {
                        // X's samples: channel xo before the swap, channel xn after it = the uninterrupted channel xo
                        let got: Vec<f64> = tr.out.iter().enumerate().map(|(s, o)| o.get(if s < n { xo } else { xn }).copied().unwrap_or(f64::NAN)).collect();
                        let exp = chan(&old_full, xo);
                        if !same(&got, &exp) {
                            fails.push(Fail { clause: format!("{}_untouched_voice_lost_state", bname(b, mode)), detail: format!("{label}: got {got:?} expected {exp:?}") });
                        }
                    }
                    Ok((_, other)) => fails.push(Fail { clause: format!("{}_swap_refused", bname(b, mode)), detail: format!("{label}: {other:?}") }),
                    Err(m) => fails.push(Fail { clause: format!("{}_swap_or_step_crashed", bname(b, mode)), detail: format!("{label}: {m}") }),
                }
            }
        }
        fails.sort_by(|a, b| a.clause.cmp(&b.clause));
        fails.dedup_by(|a, b| a.clause == b.clause);
        CaseOut {
            key: idx,
            nontrivial: traces > 0,
            outcome: if fails.is_empty() { "preserved".into() } else { "failed".into() },
            fails,
            tags: vec!["edit_batch".into(), if mirror { "batch_moves_site_to_the_end".into() } else { "batch_moves_site_to_the_front".into() }],
            repr: json!({"what": what, "old_source": old_src, "new_source": new_src}),
            counters: vec![("transitions".into(), traces * (t as u64 + 1)), ("traces".into(), traces), ("edit_batch".into(), 1)],
        }
    }
    fn run_inner(&self, tier: Tier, idx: u64) -> CaseOut {
        let (old_src, new_src, what, depth) = inner_case(idx - main_cases());
        let (t, swap_times, cfgs) = params(tier);
        let mut fails: Vec<Fail> = vec![];
        let mut traces = 0u64;
        let mut states: HashSet<u64> = HashSet::new();
        for (b, mode) in cfgs {
            let Ok(old_full) = run_plain(b, &old_src, 0, t, 0) else { continue };
            for &n in swap_times.iter().filter(|&&n| n <= t) {
                traces += 1;
                let label = format!("{} {:?} after {n} steps: {what}", b.name(), mode);
                match run_edit(b, mode, &old_src, &new_src, n, t, 0) {
                    Err(m) => fails.push(Fail { clause: format!("{}_swap_or_step_crashed", bname(b, mode)), detail: format!("{label}: {m}") }),
                    Ok((tr, sw)) => {
                        if !matches!(sw, Ok(true)) {
                            fails.push(Fail { clause: format!("{}_swap_refused", bname(b, mode)), detail: format!("{label}: {sw:?}") });
                            continue;
                        }
                        for (k, o) in tr.out.iter().enumerate() {
                            let mut key = vec![b as u8, k as u8];
                            for x in o {
                                key.extend_from_slice(&x.to_bits().to_le_bytes());
                            }
                            states.insert(fnv(&key));
                        }
                        // the edit keeps every output function: all channels continue as in the uninterrupted run
                        for c in 0..M {
                            let (got, exp) = (chan(&tr, c), chan(&old_full, c));
                            if !same(&got, &exp) {
                                fails.push(Fail {
                                    clause: format!("{}_untouched_cell_inside_edited_function_lost_state", bname(b, mode)),
                                    detail: format!("{label}: channel {c} got {got:?} expected {exp:?}"),
                                });
                            }
                        }
                    }
                }
            }
        }
        fails.sort_by(|a, b| a.clause.cmp(&b.clause));
        fails.dedup_by(|a, b| a.clause == b.clause);
        CaseOut {
            key: idx,
            nontrivial: traces > 0,
            outcome: if fails.is_empty() { "preserved".into() } else { "failed".into() },
            fails,
            tags: if depth == 0 { vec!["edit_definitions".into()] } else { vec!["edit_inner".into(), format!("chain_depth_{depth}")] },
            repr: json!({"what": what, "old_source": old_src, "new_source": new_src}),
            counters: vec![("states".into(), states.len() as u64), ("transitions".into(), traces * (t as u64 + 1)), ("traces".into(), traces), ("edit_inner".into(), 1)],
        }
    }
}

impl Prop for C07 {
    fn id(&self) -> &'static str {
        "C07"
    }
    fn n_cases(&self, _tier: Tier) -> u64 {
        main_cases() + n_inner() + n_batch()
    }
    fn chunk(&self, _t: Tier) -> u64 {
        50
    }
    fn recycle_after(&self) -> u64 {
        1_000
    }
    fn case_cap_ms(&self) -> u64 {
        120_000
    }
    fn run_case(&self, tier: Tier, idx: u64) -> CaseOut {
        if idx >= main_cases() + n_inner() {
            return self.run_batch(tier, idx);
        }
        if idx >= main_cases() {
            return self.run_inner(tier, idx);
        }
        let (v, slot, e) = decode(idx);
        let old_src = program(&v);
        let is_broken = e >= NV as usize;
        let mut nv = v;
        let new_src = if is_broken {
            broken(e - NV as usize, &v)
        } else {
            nv[slot] = e;
            program(&nv)
        };
        let (t, swap_times, cfgs) = params(tier);
        let mut fails: Vec<Fail> = vec![];
        let mut outcome = "preserved".to_string();
        let mut tags: Vec<String> = vec![];
        let old_shape = VOICES[v[slot]].1;
        let new_shape = if is_broken { "broken" } else { VOICES[nv[slot]].1 };
        let edit_kind = if is_broken {
            "broken"
        } else if v[slot] == nv[slot] {
            "none"
        } else if old_shape == "none" {
            "insert"
        } else if new_shape == "none" {
            "delete"
        } else if VOICES[v[slot]].0.starts_with("cnt(") && VOICES[nv[slot]].0.starts_with("cnt(") {
            "const"
        } else if old_shape == new_shape {
            // a different site of the same state shape: the statement does not say whether it is new or untouched
            "replace_same_shape"
        } else if (old_shape == "cnt" && new_shape == "wrapcnt") || (old_shape == "wrapcnt" && new_shape == "cnt") {
            "nest"
        } else {
            "replace"
        };
        tags.push(format!("edit_{edit_kind}"));
        // another slot has the state shape the edited slot had or gets: the diff may pair either sibling
        if (0..M).any(|c| c != slot && VOICES[v[c]].1 != "none" && (VOICES[v[c]].1 == old_shape || VOICES[v[c]].1 == new_shape)) {
            tags.push("same_shape_sibling".into());
        }
        // the replaced site and its replacement both have state (cells of one may be matched to the other)
        if edit_kind == "replace" {
            let kinds = |shape: &str| -> &'static [&'static str] {
                match shape {
                    "cnt" | "wrapcnt" | "nest" => &["feed1"],
                    "mem" => &["mem1"],
                    "delay3" => &["delay3"],
                    "delay10" => &["delay10"],
                    _ => &[],
                }
            };
            if kinds(old_shape).iter().any(|k| kinds(new_shape).contains(k)) {
                tags.push("replace_shares_cell_kind".into());
            }
        }
        let mut states: HashSet<u64> = HashSet::new();
        let mut transitions = 0u64;
        let mut traces = 0u64;
        let stream_i = 0;
        'cfg: for (b, mode) in cfgs {
            if b == Backend::Wasm && !wasm_selected(tier, idx) {
                continue;
            }
            let old_full = match run_plain(b, &old_src, 0, t, stream_i) {
                Ok(x) => x,
                Err(_) => {
                    outcome = "old_does_not_run".into();
                    break 'cfg;
                }
            };
            for &n in swap_times.iter().filter(|&&n| n <= t) {
                traces += 1;
                transitions += t as u64 + 1;
                let label = format!("{} {:?} edit {edit_kind} of slot {slot} ({} -> {}) after {n} steps", b.name(), mode, VOICES[v[slot]].0, if is_broken { "<does not compile>" } else { VOICES[nv[slot]].0 });
                let (tr, sw) = match run_edit(b, mode, &old_src, &new_src, n, t, stream_i) {
                    Ok(x) => x,
                    Err(m) => {
                        outcome = "failed".into();
                        fails.push(Fail { clause: format!("{}_swap_or_step_crashed", bname(b, mode)), detail: format!("{label}: {m}") });
                        continue;
                    }
                };
                for (k, o) in tr.out.iter().enumerate() {
                    let mut key = vec![b as u8, k as u8];
                    for x in o {
                        key.extend_from_slice(&x.to_bits().to_le_bytes());
                    }
                    states.insert(fnv(&key));
                }
                if is_broken {
                    if !matches!(sw, Err(RunErr::Compile(_))) {
                        fails.push(Fail { clause: format!("{}_broken_edit_not_rejected", bname(b, mode)), detail: format!("{label}: swap result {sw:?}") });
                    }
                    if let Some((_, d)) = first_diff(&tr.out, &old_full.out, bits_eq) {
                        outcome = "failed".into();
                        fails.push(Fail { clause: format!("{}_broken_edit_disturbed_running_program", bname(b, mode)), detail: format!("{label}: {d}") });
                    }
                    continue;
                }
                match sw {
                    Ok(true) => {}
                    other => {
                        outcome = "failed".into();
                        fails.push(Fail { clause: format!("{}_swap_refused", bname(b, mode)), detail: format!("{label}: {other:?}") });
                        continue;
                    }
                }
                // channels before the swap are the old program's
                let got: Vec<Vec<f64>> = (0..M).map(|c| chan(&tr, c)).collect();
                let oldc: Vec<Vec<f64>> = (0..M).map(|c| chan(&old_full, c)).collect();
                for c in 0..M {
                    if !same(&got[c][..n], &oldc[c][..n]) {
                        fails.push(Fail { clause: "harness_panic".into(), detail: format!("{label}: pre-swap channel {c} differs from the uninterrupted run (nondeterminism)") });
                    }
                }
                let fresh: Vec<Vec<f64>> = match run_plain(b, &new_src, n, t, stream_i) {
                    Ok(x) => (0..M).map(|c| chan(&x, c)).collect(),
                    Err(m) => {
                        fails.push(Fail { clause: "harness_panic".into(), detail: format!("fresh run of new program failed: {m}") });
                        continue;
                    }
                };
                // Oracle. Sites are paired by voice text (identical text = identical shape and code). For each
                // text class, the old sites O (in slot order) and the new sites N (in slot order) must be related by
                // an order-preserving pairing of min(|O|,|N|) pairs: a paired new site continues the stream of its
                // old partner, an unpaired new site equals a fresh start. Any such pairing is accepted (exchange
                // among identically shaped siblings). Constant change / nesting of the edited slot is handled below.
                let mut explained = [false; M];
                let mut classes: Vec<&str> = nv.iter().map(|&x| VOICES[x].0).collect();
                classes.sort();
                classes.dedup();
                for cl in classes {
                    let o: Vec<usize> = (0..M).filter(|&j| VOICES[v[j]].0 == cl).collect();
                    let nn: Vec<usize> = (0..M).filter(|&i| VOICES[nv[i]].0 == cl).collect();
                    if cl == "0.0" {
                        for &i in &nn {
                            explained[i] = same(&got[i][n..], &fresh[i]);
                        }
                        continue;
                    }
                    let k = o.len().min(nn.len());
                    // enumerate order-preserving pairings: choose k of o and k of nn (as bitmasks)
                    let mut ok_any = false;
                    let mut best = [false; M];
                    for mo in 0u32..(1 << o.len()) {
                        if mo.count_ones() as usize != k {
                            continue;
                        }
                        for mn in 0u32..(1 << nn.len()) {
                            if mn.count_ones() as usize != k {
                                continue;
                            }
                            let os: Vec<usize> = (0..o.len()).filter(|b| mo >> b & 1 == 1).map(|b| o[b]).collect();
                            let ns: Vec<usize> = (0..nn.len()).filter(|b| mn >> b & 1 == 1).map(|b| nn[b]).collect();
                            let mut this = [false; M];
                            let mut all = true;
                            for &i in &nn {
                                let good = match ns.iter().position(|&x| x == i) {
                                    Some(pi) => same(&got[i][n..], &oldc[os[pi]][n..]),
                                    None => same(&got[i][n..], &fresh[i]),
                                };
                                this[i] = good;
                                all &= good;
                            }
                            if all {
                                ok_any = true;
                            }
                            if this.iter().filter(|x| **x).count() > best.iter().filter(|x| **x).count() {
                                best = this;
                            }
                        }
                    }
                    for &i in &nn {
                        explained[i] = ok_any || best[i];
                    }
                    if !ok_any && o.len().max(nn.len()) > 1 {
                        tags.push("edit_among_identical_siblings".into());
                    }
                }
                // the edited slot under a constant change or nesting: the statement promises a carried state for a
                // changed constant; for nesting it promises nothing (carried or fresh are both accepted)
                if edit_kind == "replace_same_shape" {
                    explained[slot] = true;
                }
                if !explained[slot] && (edit_kind == "const" || edit_kind == "nest") && (new_shape == "cnt" || new_shape == "wrapcnt") {
                    let start = if n == 0 { 0.0 } else { oldc[slot][n - 1] };
                    let inc = if VOICES[nv[slot]].0.contains("2.0") { 2.0 } else { 1.0 };
                    let exp: Vec<f64> = (0..t - n).map(|k| start + inc * (k as f64 + 1.0)).collect();
                    if same(&got[slot][n..], &exp) {
                        explained[slot] = true;
                    } else if edit_kind == "const" {
                        outcome = "failed".into();
                        fails.push(Fail {
                            clause: format!("{}_state_not_carried_over_const_edit", bname(b, mode)),
                            detail: format!("{label}: channel {slot} after swap {:?}, expected {:?} (or a pairing with an identical sibling)", &got[slot][n..], &exp),
                        });
                        explained[slot] = true;
                    }
                }
                for c in 0..M {
                    if explained[c] {
                        continue;
                    }
                    outcome = "failed".into();
                    if c == slot && edit_kind != "none" {
                        fails.push(Fail {
                            clause: format!("{}_new_voice_not_started_from_zero", bname(b, mode)),
                            detail: format!("{label}: channel {c} after swap {:?}, fresh start gives {:?}", &got[c][n..], &fresh[c]),
                        });
                    } else {
                        fails.push(Fail {
                            clause: format!("{}_untouched_voice_lost_state", bname(b, mode)),
                            detail: format!("{label}: channel {c} ({}) got {:?} expected {:?}", VOICES[v[c]].0, &got[c], &oldc[c]),
                        });
                    }
                }
                if fails.len() >= 6 {
                    break 'cfg;
                }
            }
        }
        fails.sort_by(|a, b| a.clause.cmp(&b.clause));
        fails.dedup_by(|a, b| a.clause == b.clause);
        tags.sort();
        tags.dedup();
        CaseOut {
            key: idx,
            nontrivial: v.iter().any(|&x| x != 0) && traces > 0,
            outcome,
            fails,
            tags,
            repr: json!({"old": [VOICES[v[0]].0, VOICES[v[1]].0, VOICES[v[2]].0], "slot": slot, "edit": edit_kind, "new_voice": if is_broken { "<does not compile>" } else { VOICES[nv[slot]].0 }, "old_source": old_src, "new_source": new_src}),
            counters: vec![("states".into(), states.len() as u64), ("transitions".into(), transitions), ("traces".into(), traces), (format!("edit_{edit_kind}"), 1)],
        }
    }
    fn describe_case(&self, _tier: Tier, idx: u64) -> (Value, Vec<String>) {
        if idx >= main_cases() + n_inner() {
            let (ov, nv, xo, xn, _) = batch_case(idx - main_cases() - n_inner());
            return (json!({"old": [VOICES[ov[0]].0, VOICES[ov[1]].0, VOICES[ov[2]].0], "new": [VOICES[nv[0]].0, VOICES[nv[1]].0, VOICES[nv[2]].0], "moved_from_channel": xo, "to_channel": xn}), vec!["edit_batch".into()]);
        }
        if idx >= main_cases() {
            let (o, n, w, _) = inner_case(idx - main_cases());
            return (json!({"what": w, "old_source": o, "new_source": n}), vec!["edit_inner".into()]);
        }
        let (v, slot, e) = decode(idx);
        (json!({"old": [VOICES[v[0]].0, VOICES[v[1]].0, VOICES[v[2]].0], "slot": slot, "edit": e}), vec![])
    }
    fn crash_clause(&self) -> &'static str {
        "process_crash_or_hang"
    }
    fn describe(&self, tier: Tier) -> Descr {
        let (t, st, cfgs) = params(tier);
        Descr {
            rule: format!(
                "programs dsp = (v0,v1,v2) over {} voices (absent, counters with two constants, mem, two delays, nested self+call, counter inside an if arm, counter wrapped in a helper); for every old program ({} of them), every slot and every edit of that slot (replace by every voice = insert/delete/replace/constant change/nesting/no change, plus two edits that do not compile: a parse error and a type error): run the old program n steps for n in {st:?}, compile the edited text and hot-swap, run to {t} steps, on {:?}. Oracle per channel: an untouched voice continues exactly as in the uninterrupted run of the old program (any identically shaped sibling's continuation accepted when the edit touches that shape), an inserted/replaced voice equals a fresh run of the new program started at the swap time, a constant change or nesting carries the counter state, a non-compiling edit is rejected and changes nothing. Plus {} inner-edit cases: dsp = (k_d(1.0), any voice, 0.0 | cnt(1.0)) where k_d reaches a counter through a chain of d = 1..4 stateful calls and the edit rewrites the innermost function (mem inserted, delay inserted, expression changed): every channel must continue. states = distinct (backend, step, outputs); non-trivial = old program has a stateful voice.",
                VOICES.len(),
                NV.pow(M as u32),
                cfgs,
                n_inner()
            ),
            assumptions: vec![
                "channel arity is fixed at 3 (WasmDspRuntime keeps its construction-time io_channels across swaps)".into(),
                "swaps go through mimium-cli's real file runner (hook H6); on WASM the module bytes are compiled in-process instead of by the CLI's compiler subprocess".into(),
                "quick tier runs the WASM histories for every 23rd case".into(),
            ],
            bounds: json!({"steps": t, "swap_times": st, "edits_per_history": 1, "voices": VOICES.len(), "slots": M}),
            shape: "S",
        }
    }
    fn vacuity(&self, _t: Tier, c: &BTreeMap<String, u64>) -> Vec<String> {
        ["edit_insert", "edit_delete", "edit_replace", "edit_replace_same_shape", "edit_const", "edit_nest", "edit_broken", "edit_none", "edit_inner"].iter().filter(|k| c.get(**k).copied().unwrap_or(0) == 0).map(|k| format!("no {k} case")).collect()
    }
}
