//! C20 — values and types survive the plugin FFI encoding.
//! Shape E: all `interpreter::Value`s up to a depth/width bound over a leaf menu that contains
//! every representable and every unrepresentable kind, and argument lists of length 0..2 with
//! every type of a depth-bounded type menu.

use crate::engine::*;
use mimium_lang::ast::{Expr, Literal};
use mimium_lang::interner::{ExprNodeId, ToSymbol, TypeNodeId};
use mimium_lang::interpreter::{ExtFunction, Value};
use mimium_lang::runtime::ffi_serde::*;
use mimium_lang::types::{IntermediateId, PType, RecordTypeField, Type, TypeSchemeId, TypeVar};
use mimium_lang::utils::environment::Environment;
use serde_json::{Value as J, json};
use std::cell::RefCell;
use std::rc::Rc;
use std::sync::{Arc, RwLock};

/// harness-side description of a value (pure data, so enumeration is independent of the interner)
#[derive(Clone, Debug, PartialEq)]
pub enum V {
    Num(u64),
    Str(usize),
    Unit,
    Code,
    // unrepresentable kinds
    Closure,
    Fixpoint,
    ExternalFn,
    Store,
    ConstructorFn,
    ErrorV,
    Array(Vec<V>),
    Tuple(Vec<V>),
    Record(Vec<(usize, V)>),
    Tagged(u64, Box<V>),
}

const NUMS: [u64; 9] = [
    0,                     // 0.0
    0x8000_0000_0000_0000, // -0.0
    0x3FF8_0000_0000_0000, // 1.5
    0x7FF8_0000_0000_0000, // NaN (quiet)
    0x7FF0_0000_0000_0001, // NaN (signalling payload)
    0x7FF0_0000_0000_0000, // +inf
    0xFFF0_0000_0000_0000, // -inf
    0x7FEF_FFFF_FFFF_FFFF, // MAX
    1,                     // 5e-324
];
fn strs() -> Vec<String> {
    vec!["".into(), "a".into(), "é".into(), "\0".into(), "x".repeat(4096)]
}
const KEYS: [&str; 3] = ["", "a", "é"];

fn leaves() -> Vec<V> {
    let mut v = vec![];
    for n in NUMS {
        v.push(V::Num(n));
    }
    for i in 0..5 {
        v.push(V::Str(i));
    }
    v.push(V::Unit);
    v.push(V::Code);
    v.extend([V::Closure, V::Fixpoint, V::ExternalFn, V::Store, V::ConstructorFn, V::ErrorV]);
    v
}

fn composites(children: &[V], maxw: usize) -> Vec<V> {
    let mut out = vec![];
    // width 0
    out.push(V::Array(vec![]));
    out.push(V::Tuple(vec![]));
    out.push(V::Record(vec![]));
    if maxw >= 1 {
        for c in children {
            out.push(V::Array(vec![c.clone()]));
            out.push(V::Tuple(vec![c.clone()]));
            for k in 0..KEYS.len() {
                out.push(V::Record(vec![(k, c.clone())]));
            }
            out.push(V::Tagged(0, Box::new(c.clone())));
            out.push(V::Tagged(u64::MAX, Box::new(c.clone())));
        }
    }
    if maxw >= 2 {
        for a in children {
            for b in children {
                out.push(V::Array(vec![a.clone(), b.clone()]));
                out.push(V::Tuple(vec![a.clone(), b.clone()]));
                for k1 in 0..KEYS.len() {
                    for k2 in 0..KEYS.len() {
                        out.push(V::Record(vec![(k1, a.clone()), (k2, b.clone())]));
                    }
                }
            }
        }
    }
    out
}

pub struct Space {
    pub values: Vec<V>,
    /// values used as elements of argument lists
    pub arg_values: Vec<V>,
    pub n_types: usize,
}

fn space(tier: Tier) -> &'static Space {
    use std::sync::OnceLock;
    static Q: OnceLock<Space> = OnceLock::new();
    static T: OnceLock<Space> = OnceLock::new();
    let cell = match tier {
        Tier::Quick => &Q,
        Tier::Thorough => &T,
    };
    cell.get_or_init(|| {
        let l = leaves();
        let mut values = l.clone();
        let v1w2 = composites(&l, 2); // depth 1, width <= 2
        values.extend(v1w2.iter().cloned());
        // depth 2, width <= 1 over all of depth <= 1
        let mut d1: Vec<V> = l.clone();
        d1.extend(v1w2.iter().cloned());
        values.extend(composites(&d1, 1).into_iter().skip(3));
        // (both tiers explore the same space: it takes seconds)
        let _ = tier;
        {
            // depth 2, width 2 over (leaves + depth-1 width<=1)
            let mut small: Vec<V> = l.clone();
            small.extend(composites(&l, 1));
            for v in composites(&small, 2) {
                let w2 = match &v {
                    V::Array(x) | V::Tuple(x) => x.len() == 2,
                    V::Record(x) => x.len() == 2,
                    _ => false,
                };
                if w2 {
                    values.push(v);
                }
            }
            // depth 3 chains of width 1
            let d2: Vec<V> = composites(&d1, 1).into_iter().skip(3).collect();
            values.extend(composites(&d2, 1).into_iter().skip(3));
        }
        let mut arg_values = l.clone();
        arg_values.extend(composites(&l, 1));
        Space {
            values,
            arg_values,
            n_types: type_menu_len(),
        }
    })
}

// ---- building real values

fn some_expr() -> ExprNodeId {
    Expr::Literal(Literal::Float("1.0".to_symbol())).into_id_without_span()
}

fn build(v: &V) -> Value {
    match v {
        V::Num(b) => Value::Number(f64::from_bits(*b)),
        V::Str(i) => Value::String(strs()[*i].to_symbol()),
        V::Unit => Value::Unit,
        V::Code => Value::Code(some_expr()),
        V::Closure => Value::Closure(some_expr(), vec![], Environment::new()),
        V::Fixpoint => Value::Fixpoint("f".to_symbol(), some_expr()),
        V::ExternalFn => Value::ExternalFn(ExtFunction::new("ext".to_symbol(), |_| Value::Unit)),
        V::Store => Value::Store(Rc::new(RefCell::new(Value::Unit))),
        V::ConstructorFn => Value::ConstructorFn(1, "C".to_symbol(), Type::Primitive(PType::Numeric).into_id()),
        V::ErrorV => Value::ErrorV(some_expr()),
        V::Array(c) => Value::Array(c.iter().map(build).collect()),
        V::Tuple(c) => Value::Tuple(c.iter().map(build).collect()),
        V::Record(c) => Value::Record(c.iter().map(|(k, x)| (KEYS[*k].to_symbol(), build(x))).collect()),
        V::Tagged(t, x) => Value::TaggedUnion(*t, Box::new(build(x))),
    }
}

fn contains_any(v: &V, kinds: &[V]) -> bool {
    if kinds.contains(v) {
        return true;
    }
    match v {
        V::Array(c) | V::Tuple(c) => c.iter().any(|x| contains_any(x, kinds)),
        V::Record(c) => c.iter().any(|(_, x)| contains_any(x, kinds)),
        V::Tagged(_, x) => contains_any(x, kinds),
        _ => false,
    }
}

fn unrepresentable(v: &V) -> Option<&'static str> {
    match v {
        V::Closure => Some("Closure"),
        V::Fixpoint => Some("Fixpoint"),
        V::ExternalFn => Some("ExternalFn"),
        V::Store => Some("Store"),
        V::ConstructorFn => Some("ConstructorFn"),
        V::ErrorV => Some("ErrorV"),
        V::Array(c) | V::Tuple(c) => c.iter().find_map(unrepresentable),
        V::Record(c) => c.iter().find_map(|(_, x)| unrepresentable(x)),
        V::Tagged(_, x) => unrepresentable(x),
        _ => None,
    }
}

/// structural comparison of a decoded value with the description it was built from
fn same(v: &V, got: &Value, orig: &Value) -> Result<(), String> {
    match (v, got, orig) {
        (V::Num(b), Value::Number(n), _) => {
            if n.to_bits() == *b {
                Ok(())
            } else {
                Err(format!("number bits {:#x} became {:#x}", b, n.to_bits()))
            }
        }
        (V::Str(i), Value::String(s), _) => {
            if s.as_str() == strs()[*i] {
                Ok(())
            } else {
                Err(format!("string {:?} became {:?}", &strs()[*i].chars().take(8).collect::<String>(), s.as_str().chars().take(8).collect::<String>()))
            }
        }
        (V::Unit, Value::Unit, _) => Ok(()),
        (V::Code, Value::Code(e), Value::Code(o)) => {
            if e.0 == o.0 {
                Ok(())
            } else {
                Err("code expression id changed".into())
            }
        }
        (V::Array(c), Value::Array(g), Value::Array(o)) | (V::Tuple(c), Value::Tuple(g), Value::Tuple(o)) => {
            if c.len() != g.len() {
                return Err(format!("length {} became {}", c.len(), g.len()));
            }
            for ((x, y), z) in c.iter().zip(g).zip(o) {
                same(x, y, z)?;
            }
            Ok(())
        }
        (V::Record(c), Value::Record(g), Value::Record(o)) => {
            if c.len() != g.len() {
                return Err(format!("record length {} became {}", c.len(), g.len()));
            }
            for (((k, x), (gk, y)), (_, z)) in c.iter().zip(g).zip(o) {
                if gk.as_str() != KEYS[*k] {
                    return Err(format!("record key {:?} became {:?}", KEYS[*k], gk.as_str()));
                }
                same(x, y, z)?;
            }
            Ok(())
        }
        (V::Tagged(t, x), Value::TaggedUnion(gt, y), Value::TaggedUnion(_, z)) => {
            if t != gt {
                return Err(format!("tag {t} became {gt}"));
            }
            same(x, y, z)
        }
        (v, g, _) => Err(format!("{v:?} became {}", kind(g))),
    }
}
fn kind(v: &Value) -> &'static str {
    match v {
        Value::ErrorV(_) => "ErrorV",
        Value::Unit => "Unit",
        Value::Number(_) => "Number",
        Value::String(_) => "String",
        Value::Array(_) => "Array",
        Value::Record(_) => "Record",
        Value::Tuple(_) => "Tuple",
        Value::Closure(..) => "Closure",
        Value::Fixpoint(..) => "Fixpoint",
        Value::Code(_) => "Code",
        Value::ExternalFn(_) => "ExternalFn",
        Value::Store(_) => "Store",
        Value::TaggedUnion(..) => "TaggedUnion",
        Value::ConstructorFn(..) => "ConstructorFn",
    }
}

// ---- types
fn type_menu_len() -> usize {
    type_menu().len()
}
fn type_menu() -> Vec<Type> {
    let prim = |p| Type::Primitive(p).into_id();
    let f = prim(PType::Numeric);
    let base: Vec<Type> = vec![
        Type::Primitive(PType::Unit),
        Type::Primitive(PType::Int),
        Type::Primitive(PType::Numeric),
        Type::Primitive(PType::String),
        Type::Any,
        Type::Failure,
        Type::Unknown,
        Type::TypeAlias("é".to_symbol()),
        Type::TypeScheme(TypeSchemeId(3)),
        Type::Intermediate(Arc::new(RwLock::new(TypeVar::new(IntermediateId(7), 1)))),
    ];
    let mut out = base.clone();
    let wrap = |t: TypeNodeId| -> Vec<Type> {
        vec![
            Type::Array(t),
            Type::Tuple(vec![]),
            Type::Tuple(vec![t, f]),
            Type::Record(vec![]),
            Type::Record(vec![RecordTypeField::new("".to_symbol(), t, false), RecordTypeField::new("é".to_symbol(), f, true)]),
            Type::Function { arg: t, ret: f },
            Type::Function { arg: f, ret: t },
            Type::Ref(t),
            Type::Code(t),
            Type::Union(vec![t, f]),
            Type::UserSum {
                name: "S".to_symbol(),
                variants: vec![("A".to_symbol(), None), ("B".to_symbol(), Some(t))],
            },
            Type::Boxed(t),
        ]
    };
    let mut d1 = vec![];
    for b in &base {
        d1.extend(wrap(b.clone().into_id()));
    }
    out.extend(d1.iter().cloned());
    for t in d1.iter().step_by(3) {
        out.extend(wrap(t.clone().into_id()));
    }
    out
}

fn show(v: &V) -> String {
    match v {
        V::Num(b) => format!("Number({:?})", f64::from_bits(*b)),
        V::Str(4) => "String(4KiB)".into(),
        V::Str(i) => format!("String({:?})", strs()[*i]),
        V::Array(c) => format!("Array[{}]", c.iter().map(show).collect::<Vec<_>>().join(",")),
        V::Tuple(c) => format!("Tuple({})", c.iter().map(show).collect::<Vec<_>>().join(",")),
        V::Record(c) => format!("Record{{{}}}", c.iter().map(|(k, x)| format!("{:?}={}", KEYS[*k], show(x))).collect::<Vec<_>>().join(",")),
        V::Tagged(t, x) => format!("Tagged({t},{})", show(x)),
        other => format!("{other:?}"),
    }
}

pub struct C20;
impl C20 {
    fn n_types_family(&self, tier: Tier) -> u64 {
        space(tier).n_types as u64
    }
    fn layout(&self, tier: Tier) -> (u64, u64, u64) {
        let sp = space(tier);
        let nv = sp.values.len() as u64;
        let na = sp.arg_values.len() as u64;
        // argument lists: length 0, 1 (value x type), 2 (value x value, types rotating)
        let lists = 1 + na * sp.n_types as u64 + na * na;
        (nv, lists, na)
    }
}
impl Prop for C20 {
    fn id(&self) -> &'static str {
        "C20"
    }
    fn n_cases(&self, tier: Tier) -> u64 {
        let (nv, nl, _) = self.layout(tier);
        nv + nl + self.n_types_family(tier) + nv
    }
    fn chunk(&self, _t: Tier) -> u64 {
        2000
    }
    fn run_case(&self, tier: Tier, idx: u64) -> CaseOut {
        let sp = space(tier);
        let (nv, nl, na) = self.layout(tier);
        let mut fails = vec![];
        let mut tags = vec![];
        let outcome;
        let repr;
        if idx >= nv + nl + self.n_types_family(tier) {
            // Value's own serde implementation (interpreter/serde_impl.rs)
            let v = &sp.values[(idx - nv - nl - self.n_types_family(tier)) as usize];
            let real = build(v);
            repr = json!({"value_direct_serde": show(v)});
            let refused_kind = contains_any(v, &[V::Closure, V::ExternalFn, V::Store]);
            let opaque = contains_any(v, &[V::Fixpoint, V::ConstructorFn, V::ErrorV]);
            match catch(|| bincode::serialize(&real)) {
                Err(m) => {
                    fails.push(Fail { clause: "value_serde_panic".into(), detail: m });
                    outcome = "panic".into();
                }
                Ok(Err(_)) => {
                    if !refused_kind {
                        fails.push(Fail { clause: "value_serde_refused_representable".into(), detail: show(v) });
                    }
                    outcome = "direct_refused".into();
                }
                Ok(Ok(bytes)) => {
                    if refused_kind {
                        fails.push(Fail { clause: "value_serde_unrepresentable_not_refused".into(), detail: show(v) });
                        outcome = "direct_altered".into();
                    } else {
                        match catch(|| bincode::deserialize::<Value>(&bytes)) {
                            Err(m) => {
                                fails.push(Fail { clause: "value_serde_decode_panic".into(), detail: m });
                                outcome = "panic".into();
                            }
                            Ok(Err(e)) => {
                                fails.push(Fail { clause: "value_serde_decode_error".into(), detail: e.to_string() });
                                outcome = "decode_err".into();
                            }
                            Ok(Ok(back)) => {
                                if opaque {
                                    outcome = "direct_opaque_ok".into();
                                } else {
                                    match same(v, &back, &real) {
                                        Ok(()) => outcome = "direct_roundtrip".into(),
                                        Err(d) => {
                                            fails.push(Fail { clause: "value_serde_roundtrip_differs".into(), detail: d });
                                            outcome = "differs".into();
                                        }
                                    }
                                }
                            }
                        }
                    }
                }
            }
        } else if idx >= nv + nl {
            // Type's own serde implementation (types/serde_impl.rs)
            let menu = type_menu();
            let t = menu[(idx - nv - nl) as usize].clone();
            repr = json!({"type_direct_serde": format!("{t}")});
            let must_refuse = matches!(t, Type::Intermediate(_) | Type::TypeScheme(_));
            match catch(|| bincode::serialize(&t)) {
                Err(m) => {
                    fails.push(Fail { clause: "type_serde_panic".into(), detail: m });
                    outcome = "panic".into();
                }
                Ok(Err(_)) => {
                    if !must_refuse {
                        fails.push(Fail { clause: "type_serde_refused_representable".into(), detail: format!("{t}") });
                    }
                    outcome = "type_refused".into();
                }
                Ok(Ok(bytes)) => {
                    if must_refuse {
                        fails.push(Fail { clause: "type_serde_internal_not_refused".into(), detail: format!("{t}") });
                        outcome = "type_altered".into();
                    } else {
                        match catch(|| bincode::deserialize::<Type>(&bytes)) {
                            Err(m) => {
                                fails.push(Fail { clause: "type_serde_decode_panic".into(), detail: m });
                                outcome = "panic".into();
                            }
                            Ok(Err(e)) => {
                                fails.push(Fail { clause: "type_serde_decode_error".into(), detail: e.to_string() });
                                outcome = "decode_err".into();
                            }
                            Ok(Ok(back)) => {
                                if back == t && format!("{back}") == format!("{t}") {
                                    outcome = "type_roundtrip".into();
                                } else {
                                    fails.push(Fail { clause: "type_serde_roundtrip_differs".into(), detail: format!("{t} became {back}") });
                                    outcome = "differs".into();
                                }
                            }
                        }
                    }
                }
            }
        } else if idx < nv {
            let v = &sp.values[idx as usize];
            let real = build(v);
            repr = json!({"value": show(v)});
            let un = unrepresentable(v);
            if let Some(k) = un {
                tags.push(format!("contains_{k}"));
            }
            match catch(|| serialize_value(&real)) {
                Err(m) => {
                    fails.push(Fail { clause: "serialize_panic".into(), detail: m });
                    outcome = "panic".into();
                }
                Ok(Err(_)) => {
                    if un.is_none() {
                        fails.push(Fail { clause: "representable_value_refused".into(), detail: show(v) });
                    }
                    outcome = "refused".to_string();
                }
                Ok(Ok(bytes)) => match catch(|| deserialize_value(&bytes)) {
                    Err(m) => {
                        fails.push(Fail { clause: "deserialize_panic".into(), detail: m });
                        outcome = "panic".into();
                    }
                    Ok(Err(e)) => {
                        fails.push(Fail { clause: "deserialize_error".into(), detail: e });
                        outcome = "decode_err".into();
                    }
                    Ok(Ok(back)) => {
                        if let Some(k) = un {
                            fails.push(Fail {
                                clause: format!("unrepresentable_not_refused_{k}"),
                                detail: format!("{} encoded Ok and decoded to {}", show(v), kind(&back)),
                            });
                            outcome = "altered".into();
                        } else {
                            match same(v, &back, &real) {
                                Ok(()) => outcome = "roundtrip".into(),
                                Err(d) => {
                                    fails.push(Fail { clause: "roundtrip_differs".into(), detail: d });
                                    outcome = "differs".into();
                                }
                            }
                        }
                    }
                },
            }
        } else {
            // argument lists
            let k = idx - nv;
            let menu = type_menu();
            let nt = menu.len() as u64;
            let (vals, tys): (Vec<&V>, Vec<usize>) = if k == 0 {
                (vec![], vec![])
            } else if k - 1 < na * nt {
                let k = k - 1;
                (vec![&sp.arg_values[(k / nt) as usize]], vec![(k % nt) as usize])
            } else {
                let k = k - 1 - na * nt;
                let (a, b) = ((k / na) as usize, (k % na) as usize);
                (vec![&sp.arg_values[a], &sp.arg_values[b]], vec![a % nt as usize, (a * 7 + b) % nt as usize])
            };
            let tyids: Vec<TypeNodeId> = tys.iter().map(|i| menu[*i].clone().into_id()).collect();
            let reals: Vec<(Value, TypeNodeId)> = vals.iter().zip(&tyids).map(|(v, t)| (build(v), *t)).collect();
            repr = json!({"args": vals.iter().map(|v| show(v)).collect::<Vec<_>>(), "types": tyids.iter().map(|t| format!("{}", t.to_type())).collect::<Vec<_>>()});
            let un = vals.iter().find_map(|v| unrepresentable(v));
            if let Some(k) = un {
                tags.push(format!("contains_{k}"));
            }
            match catch(|| serialize_macro_args(&reals)) {
                Err(m) => {
                    fails.push(Fail { clause: "serialize_args_panic".into(), detail: m });
                    outcome = "panic".into();
                }
                Ok(Err(_)) => {
                    if un.is_none() {
                        fails.push(Fail { clause: "representable_args_refused".into(), detail: String::new() });
                    }
                    outcome = "args_refused".into();
                }
                Ok(Ok(bytes)) => match catch(|| deserialize_macro_args(&bytes)) {
                    Err(m) => {
                        fails.push(Fail { clause: "deserialize_args_panic".into(), detail: m });
                        outcome = "panic".into();
                    }
                    Ok(Err(e)) => {
                        fails.push(Fail { clause: "deserialize_args_error".into(), detail: e });
                        outcome = "decode_err".into();
                    }
                    Ok(Ok(back)) => {
                        if let Some(k) = un {
                            fails.push(Fail {
                                clause: format!("unrepresentable_not_refused_{k}"),
                                detail: "argument list encoded Ok".into(),
                            });
                            outcome = "args_altered".into();
                        } else if back.len() != reals.len() {
                            fails.push(Fail { clause: "args_length_differs".into(), detail: format!("{} vs {}", back.len(), reals.len()) });
                            outcome = "differs".into();
                        } else {
                            let mut ok = true;
                            for (i, ((bv, bt), (rv, rt))) in back.iter().zip(&reals).enumerate() {
                                if let Err(d) = same(vals[i], bv, rv) {
                                    fails.push(Fail { clause: "arg_roundtrip_differs".into(), detail: d });
                                    ok = false;
                                }
                                // types: same interned node and structurally equal
                                if bt.0 != rt.0 || bt.to_type() != rt.to_type() {
                                    fails.push(Fail {
                                        clause: "type_roundtrip_differs".into(),
                                        detail: format!("{} became {}", rt.to_type(), bt.to_type()),
                                    });
                                    ok = false;
                                }
                            }
                            outcome = if ok { format!("args_roundtrip{}", reals.len()) } else { "differs".into() };
                        }
                    }
                },
            }
        }
        CaseOut {
            key: idx,
            nontrivial: true,
            outcome,
            fails,
            tags,
            repr,
            counters: vec![],
        }
    }
    fn describe(&self, tier: Tier) -> Descr {
        let sp = space(tier);
        let (nv, nl, na) = self.layout(tier);
        Descr {
            rule: format!(
                "every interpreter::Value over leaves {{9 numbers incl. -0.0, two NaN payloads, +-inf, MAX, 5e-324; 5 strings incl. empty, non-ASCII, NUL, 4 KiB; Unit; Code; and each unrepresentable kind Closure, Fixpoint, ExternalFn, Store, ConstructorFn, ErrorV}} combined by Array/Tuple/Record(keys \"\",a,é)/TaggedUnion(tags 0,MAX): depth 1 width<=2, depth 2 width<=1{}: {nv} values through serialize_value/deserialize_value; \
                 plus {nl} argument lists of length 0..2 ({na} element values x {} types incl. Intermediate and TypeScheme) through serialize_macro_args/deserialize_macro_args; plus every type of the menu and every value again through their own serde implementations (bincode), where Intermediate/TypeScheme resp. Closure/ExternalFn/Store must be refused. Index = position in the enumeration (injective).",
                ", depth 2 width 2 over small children, depth 3 width 1",
                sp.n_types
            ),
            assumptions: vec![
                "host and plugin share the interner, so ExprNodeId/TypeNodeId cross as keys (as the loader sets up); equality of types = same key and structurally equal Type".into(),
                "ErrorV is counted among the values that cannot cross the boundary (the encoding has no payload for it)".into(),
            ],
            bounds: json!({"values": nv, "arg_lists": nl, "types": sp.n_types}),
            shape: "E",
        }
    }
    fn describe_case(&self, tier: Tier, idx: u64) -> (J, Vec<String>) {
        let sp = space(tier);
        if (idx as usize) < sp.values.len() {
            (json!({"value": show(&sp.values[idx as usize])}), vec![])
        } else {
            (json!({"idx": idx}), vec![])
        }
    }
}
