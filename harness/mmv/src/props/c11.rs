//! C11 — scheduled tasks run exactly once at exactly their sample time.
//! Shape S: the system is the runtime with its task queue; events are `Sched` (from global scope,
//! from a running task: self-rescheduling and chaining) and `Step`. Every FT program (all
//! insertion orders, equal times, truncated times, chains) is run on VM and WASM and compared with
//! a sorted-multiset reference at every sample.

use crate::engine::*;
use crate::pc::*;
use crate::run::{Backend, RunErr, bits_eq};
use serde_json::{Value, json};
use std::collections::{BTreeMap, HashSet};
use std::sync::OnceLock;

pub struct C11;

fn space(tier: Tier) -> &'static Space {
    static Q: OnceLock<Space> = OnceLock::new();
    static T: OnceLock<Space> = OnceLock::new();
    match tier {
        Tier::Quick => Q.get_or_init(|| Space::new(&[("FT", 3), ("FL", 4), ("FR", 0)])),
        Tier::Thorough => T.get_or_init(|| Space::new(&[("FT", 3), ("FL", 5), ("FR", 0)])),
    }
}
fn samples(tier: Tier) -> usize {
    match tier {
        Tier::Quick => 12,
        Tier::Thorough => 40,
    }
}

impl Prop for C11 {
    fn id(&self) -> &'static str {
        "C11"
    }
    fn shards_per_job(&self) -> u64 {
        16
    }
    fn n_cases(&self, tier: Tier) -> u64 {
        space(tier).n()
    }
    fn chunk(&self, _t: Tier) -> u64 {
        20
    }
    fn recycle_after(&self) -> u64 {
        2_000
    }
    fn case_cap_ms(&self) -> u64 {
        30_000
    }
    fn run_case(&self, tier: Tier, idx: u64) -> CaseOut {
        let (_, g) = space(tier).get(idx);
        let Some(g) = g else {
            return CaseOut { key: idx, nontrivial: false, outcome: "invalid_index".into(), ..Default::default() };
        };
        let ft = g.ft.as_ref().unwrap();
        let src = g.source();
        let tags = g.tags();
        let n = samples(tier);
        let reference = ft.reference(n);
        let mut fails = vec![];
        let mut outcome = "on_time";
        let mut states: HashSet<u64> = HashSet::new();
        let mut outs = vec![];
        for b in [Backend::Vm, Backend::Wasm] {
            match run_backend(b, &src, true, 0, 0, n, false) {
                Ok(fr) => {
                    if let Some((t, d)) = first_diff(&fr.out, &reference, bits_eq) {
                        outcome = "wrong";
                        // classify: early / late / dropped / duplicated by looking at the counters
                        let got = &fr.out[t.min(fr.out.len() - 1)];
                        let exp = &reference[t.min(reference.len() - 1)];
                        let kind = (0..got.len().min(exp.len()) / 2)
                            .find_map(|i| {
                                let (gc, ec) = (got[2 * i], exp[2 * i]);
                                if gc > ec {
                                    Some("ran_early_or_twice")
                                } else if gc < ec {
                                    Some("ran_late_or_dropped")
                                } else if got[2 * i + 1] != exp[2 * i + 1] {
                                    Some("wrong_time_seen_by_task")
                                } else {
                                    None
                                }
                            })
                            .unwrap_or("shape");
                        fails.push(Fail { clause: format!("{}_task_{kind}", b.name()), detail: format!("{d} ({} vs reference); got={} reference={}", b.name(), show(&fr.out, 8), show(&reference, 8)) });
                    }
                    for (k, o) in fr.out.iter().enumerate() {
                        let mut key = vec![k as u8];
                        for x in o {
                            key.extend_from_slice(&x.to_bits().to_le_bytes());
                        }
                        states.insert(fnv(&key));
                    }
                    outs.push(fr.out);
                }
                Err(RunErr::Compile(es)) => {
                    outcome = "rejected";
                    fails.push(Fail { clause: format!("{}_rejects_task_program", b.name()), detail: es.join(" | ") });
                }
                Err(RunErr::Crash(m)) => {
                    outcome = "crash";
                    fails.push(Fail { clause: format!("{}_crash_{}", b.name(), crash_label(&m)), detail: m });
                }
            }
        }
        if outs.len() == 2 {
            if let Some((_, d)) = first_diff(&outs[0], &outs[1], bits_eq) {
                fails.push(Fail { clause: "vm_wasm_disagree".into(), detail: d });
            }
        }
        let nontrivial = reference.iter().any(|o| o != &reference[0]);
        CaseOut {
            key: fnv(src.as_bytes()),
            nontrivial,
            outcome: outcome.into(),
            fails,
            tags,
            repr: gen_repr(&g, &src),
            counters: vec![("states".into(), states.len() as u64), ("transitions".into(), 2 * n as u64), ("traces".into(), 2), ("task_runs_expected".into(), reference.last().map(|o| o.iter().step_by(2).sum::<f64>() as u64).unwrap_or(0))],
        }
    }
    fn describe_case(&self, tier: Tier, idx: u64) -> (Value, Vec<String>) {
        match space(tier).get(idx).1 {
            Some(g) => (gen_repr(&g, &g.source()), g.tags()),
            None => (json!({"idx": idx}), vec![]),
        }
    }
    fn crash_clause(&self) -> &'static str {
        "process_crash_or_hang"
    }
    fn describe(&self, tier: Tier) -> Descr {
        Descr {
            rule: format!(
                "every task program of family {}: each task is first scheduled from global scope at a time in {{1,2,3,2.5}}, or by the previous task (chaining, delay in the same set), or by dsp itself at sample 2 (same delays), and reschedules itself with period in {{none,1,2,3}}; all combinations = all insertion orders, equal times and truncated times; each task increments its own counter cell and records `now`; family FL: a function binds two closure values (counting in captured locals) and issues every sequence of requests `tick_j@t` over 2 closures x 4 times - so the same closure value is also requested several times for one sample - and returns a reader closure; family FR: bursts of 1, 2, 60, 127, 128, 129 and 300 requests issued in one go (by global code before the first sample, or by a task), one task due at each following sample; run for {} samples on VM and WASM with the scheduler plugin and compared at every sample with a sorted-multiset reference (task scheduled for w runs once, before dsp of sample floor(w)). states = distinct (sample, outputs); non-trivial = some task runs.",
                space(tier).describe(),
                samples(tier)
            ),
            assumptions: vec!["task effects are per-task cells, so the order among tasks due at the same sample is not observed".into(), "dsp schedules only at one fixed sample (2), through a helper function".into()],
            bounds: json!({"tasks": space(tier).parts[0].k, "requests_for_local_closures": space(tier).parts[1].k, "samples": samples(tier)}),
            shape: "S",
        }
    }
    fn vacuity(&self, _t: Tier, c: &BTreeMap<String, u64>) -> Vec<String> {
        if c.get("task_runs_expected").copied().unwrap_or(0) == 0 { vec!["no task ever ran in the reference".into()] } else { vec![] }
    }
}
