//! C04 — front end and compile entry points are total on arbitrary text.
//! Shape E: all token sequences up to a length bound, all deviation-1 token edits and all
//! truncations of corpus files, nesting ladders up to the stated bound B on a 2 MiB stack.

use crate::corpus::corpus;
use crate::engine::*;
use crate::props::c13::SPELLINGS;
use mimium_lang::compiler::{mirgen, parser};
use mimium_lang::interner::{Symbol, TypeNodeId};
use mimium_lang::utils::error::ReportableError;
use mimium_lang::{Config, ExecContext};
use serde_json::{Value, json};
use std::collections::BTreeMap;
use std::path::PathBuf;
use std::sync::OnceLock;

pub const NEST_BOUND: usize = 64;
const INPUT_PATH: &str = "/verif-input.mmm";

fn nth_seq(mut idx: u64, l: u32) -> Vec<usize> {
    // sequences of length 0..=l over 72 spellings, shortest first
    if idx == 0 {
        return vec![];
    }
    idx -= 1;
    let b = SPELLINGS.len() as u64;
    for k in 1..=l {
        let n = b.pow(k);
        if idx < n {
            let mut d = vec![];
            let mut x = idx;
            for _ in 0..k {
                d.push((x % b) as usize);
                x /= b;
            }
            d.reverse();
            return d;
        }
        idx -= n;
    }
    unreachable!()
}
fn count_seq(l: u32) -> u64 {
    let b = SPELLINGS.len() as u64;
    1 + (1..=l).map(|k| b.pow(k)).sum::<u64>()
}

// ---- ladders
const LADDER_KINDS: usize = 32;
fn ladder(kind: usize, d: usize) -> (String, &'static str) {
    let rep = |s: &str, n: usize| s.repeat(n);
    let w = |body: String| format!("fn dsp(){{ {body} }}");
    match kind {
        0 => (w(format!("{}1{}", rep("(", d), rep(")", d))), "paren"),
        1 => (w(format!("{}1{}", rep("{", d), rep("}", d))), "block"),
        2 => (w(format!("{}1{}", rep("[", d), rep("]", d))), "array"),
        3 => (w(format!("{}1", rep("|x| ", d))), "lambda"),
        4 => (w(format!("{}1", rep("-", d))), "unary_minus"),
        5 => (w(format!("{}1", rep("`$", d))), "quote_splice"),
        6 => (w(format!("{}1", rep("if (1) 1 else ", d))), "else_if_chain"),
        7 => (format!("fn f(x:{}float{}){{x}}", rep("(", d), rep(")->float", d)), "fn_type"),
        8 => (w(format!("{}1{}", rep("f(", d), rep(")", d))), "call"),
        9 => (w(format!("{}1{}", rep("(1,", d), rep(")", d))), "tuple"),
        10 => (w(format!("1{}", rep("+1", d))), "binop_chain"),
        11 => (w(format!("1{}", rep(" |> f", d))), "pipe_chain"),
        12 => (w(format!("{}1{}", rep("({", d), rep("})", d))), "paren_block"),
        13 => (w(format!("{}1{}", rep("[(", d), rep(")]", d))), "array_paren"),
        14 => (w(format!("{}1{}", rep("{|x| ", d), rep("}", d))), "block_lambda"),
        15 => (w(format!("{}1{}", rep("if (1) {", d), rep("} else {0}", d))), "if_block"),
        // unclosed variants: only openers (error recovery recursion)
        16 => (w(rep("(", d)), "open_paren"),
        17 => (w(rep("{", d)), "open_block"),
        18 => (w(rep("[", d)), "open_array"),
        19 => (rep(")", d), "close_only"),
        20 => (w(rep("if (", d)), "open_if"),
        21 => (rep("mod m { ", d), "open_mod"),
        22 => (w(format!("{}1", rep("match 1 { 1 => ", d))), "open_match"),
        23 => (w(format!("x{}", rep(".0", d))), "projection_chain"),
        24 => (w(format!("{}1", rep("let x = ", d))), "let_chain"),
        25 => (format!("fn f(x:{}float{}){{x}}", rep("[", d), rep("]", d)), "array_type"),
        // cyclic and chained *references* of length d (passes that follow names until they stop)
        26 => {
            let mods: String = (0..d).map(|i| format!("mod m{i} {{\n  pub use m{}::x\n}}\n", (i + 1) % d)).collect();
            (format!("{mods}fn dsp(){{ m0::x() }}"), "reexport_cycle")
        }
        27 => {
            let mods: String = (0..d).map(|i| format!("mod m{i} {{\n  pub use m{}::x\n}}\n", i + 1)).collect();
            (format!("{mods}mod m{d} {{\n  pub fn x(){{ 1.0 }}\n}}\nfn dsp(){{ m0::x() }}"), "reexport_chain")
        }
        28 => {
            let al: String = (0..d).map(|i| format!("type alias A{i} = A{}\n", (i + 1) % d)).collect();
            (format!("{al}fn dsp(){{\n  let v: A0 = 1.0\n  v\n}}"), "type_alias_cycle")
        }
        29 => {
            let al: String = (0..d).map(|i| format!("type alias A{i} = A{}\n", i + 1)).collect();
            (format!("{al}type alias A{d} = float\nfn dsp(){{\n  let v: A0 = 1.0\n  v\n}}"), "type_alias_chain")
        }
        30 => {
            let fs: String = (0..d).map(|i| format!("fn f{i}(x){{ f{}(x) }}\n", (i + 1) % d)).collect();
            (format!("{fs}fn dsp(){{ 0.0 }}"), "function_cycle")
        }
        31 => {
            let us: String = (0..d).map(|i| format!("mod m{i} {{\n  use m{}::*\n  pub fn g{i}(){{ {i}.0 }}\n}}\n", (i + 1) % d)).collect();
            (format!("{us}fn dsp(){{ m0::g0() }}"), "wildcard_use_cycle")
        }
        _ => unreachable!(),
    }
}

// ---- corpus edits
struct EditSpace {
    /// per file: (file idx, non-trivia token spans)
    files: Vec<(usize, Vec<(usize, usize)>)>,
    cum: Vec<u64>,
}
fn per_file_count(ntok: u64, nbytes: u64) -> u64 {
    let s = SPELLINGS.len() as u64;
    ntok * (1 + s + s) + (nbytes + 1)
}
fn edit_space(tier: Tier) -> &'static EditSpace {
    static Q: OnceLock<EditSpace> = OnceLock::new();
    static T: OnceLock<EditSpace> = OnceLock::new();
    let (cell, nfiles) = match tier {
        Tier::Quick => (&Q, 8usize),
        Tier::Thorough => (&T, 120usize),
    };
    cell.get_or_init(|| {
        let c = corpus();
        let mut files = vec![];
        let mut cum = vec![0u64];
        for (i, f) in c.iter().enumerate().take(nfiles) {
            let toks = parser::tokenize(&f.text);
            let spans: Vec<(usize, usize)> = toks
                .iter()
                .filter(|t| !t.is_trivia() && t.kind != parser::TokenKind::Eof)
                .map(|t| (t.start, t.end()))
                .collect();
            cum.push(cum.last().unwrap() + per_file_count(spans.len() as u64, f.text.len() as u64));
            files.push((i, spans));
        }
        EditSpace { files, cum }
    })
}

struct Layout {
    l_front: u32,
    n_front: u64,
    l_comp: u32,
    n_comp: u64,
    n_ladder: u64,
    n_edit: u64,
    n_wit: u64,
}
/// Small well-formed (or nearly well-formed) texts around constructs that once crashed a front-end pass:
/// each is run unedited with compilation, in both tiers.
const WITNESS: &[&str] = &[
    "type alias A = A\nfn dsp() {\n  let x: A = 440.0\n  x * 2.0\n}\n",
    "type alias A = B\ntype alias B = (A, float)\nfn dsp() {\n  let x: A = 440.0\n  x\n}\n",
    "type alias C = A\ntype alias A = A\nfn dsp() {\n  let x: C = 1.0\n  x\n}\n",
    "type alias = Freq = float\nfn dsp() {\n  let x: Freq = 440.0\n  x * 2.0\n}\n",
    "fn dsp(){\n  let a = [1.0, 2.0]\n  a[0] = 3.0\n  a[0]\n}\n",
    "fn dsp(){\n  let a = [1.0, 2.0]\n  a[0] = a[1] = 3.0\n  a[0]\n}\n",
    "fn dsp(){ let c = (1.0,2.0)+2.0\n c.0 + c.1 + c.2 }",
    "fn dsp(){ let c = (1.0,2.0)\n c.2 }",
    "fn dsp(){ let c = (1.0,2.0)\n c.3 }",
    "fn foo(a, b=2.0){ a + b }\nfn dsp(){ foo({a = 1.0 + 2.0, ..}) }",
    "fn foo(a, b=2.0){ a + b }\nfn dsp(){ foo({a = self + 1.0, ..}) }",
    "fn foo(a, b=2.0){ a + b }\nfn dsp(){ foo({a =+ 1.0, ..}) }",
    "fn foo(a, b=2.0){ a + b }\nfn dsp(){ foo({a = -1.0, b = foo!(1.0), ..}) }",
    // extreme integer literals in structural positions (projection index, array index, delay size)
    "fn dsp(){ let t = (1.0, 2.0)\n t.65536 }",
    "fn dsp(){ let t = (1.0, 2.0)\n t.65537 }",
    "fn dsp(){ let t = (1.0, 2.0)\n t.4294967296 }",
    "fn dsp(){ let t = (1.0, 2.0)\n t.4294967297 }",
    "fn dsp(){ let t = (1.0, 2.0)\n t.18446744073709551616 }",
    "fn dsp(){ let t = (1.0, 2.0)\n t.99999999999999999999999999 }",
    "fn dsp(){ let a = [1.0, 2.0]\n a[18446744073709551616] }",
    "fn dsp(){ delay(18446744073709551616, 1.0, 1.0) }",
    "fn dsp(){ delay(1e30, 1.0, 1.0) }",
    "x ! x ::",
    "fn dsp(){ y :: }",
    "fn dsp(){ a::b!(1.0) }",
    "fn dsp(){ let r = {a = 1.0, b = 2.0}\n r.a = r.c\n r.a }",
    "fn dsp(){ let t = (1.0, 2.0)\n t.0 = 3.0\n t.0 }",
    "fn dsp(){ 1.0 = 2.0\n 0.0 }",
    "fn dsp(){ let f = |x| x\n f(1.0) = 2.0\n 0.0 }",
    // files that include each other (`@INC@` = a directory the harness fills, see incfiles.rs): cycles of length 2, 3, 5,
    // a cycle of `mod name;` files, and - not cyclic - a chain of 48 files and a diamond
    "include(\"@INC@/cyc2_0.mmm\")\nfn dsp() {\n  cyc2_f0(1.0)\n}\n",
    "include(\"@INC@/cyc3_0.mmm\")\nfn dsp() {\n  cyc3_f0(1.0)\n}\n",
    "include(\"@INC@/cyc5_0.mmm\")\nfn dsp() {\n  cyc5_f0(1.0)\n}\n",
    "include(\"@INC@/mcyc_main.mmm\")\nfn dsp() {\n  mcyc_entry(1.0)\n}\n",
    "include(\"@INC@/chain_0.mmm\")\nfn dsp() {\n  chain_f0(1.0) + chain_f47(1.0)\n}\n",
    "include(\"@INC@/dia_top.mmm\")\nfn dsp() {\n  dia_top(1.0)\n}\n",
    // record / tuple mismatches at several positions of one annotated let (a unification failure without any label), and
    // alias cycles declared inside a module (mangled names), noted by a seeding sub-agent
    "fn g(p:{a:float}, q:{a:float, b:float}){ let x: ({a:float, b:float}, {a:float}) = (p, q)\n 0.0 }\nfn dsp(){ 0.0 }",
    "fn g(p:(float, float), q:float){ let x: (float, (float, float)) = (p, q)\n 0.0 }\nfn dsp(){ 0.0 }",
    "mod m { type alias A = (B, float)\n type alias B = A\n pub fn f(x:A){ 0.0 } }\nfn dsp(){ 0.0 }",
    "mod m { pub type alias A = B\n pub type alias B = C\n pub type alias C = A\n pub fn f(x:A){ 0.0 } }\nfn dsp(){ m::f(1.0) }",
    "mod m { mod n { pub type alias A = A } pub fn f(x:n::A){ 0.0 } }\nfn dsp(){ 0.0 }",
];
/// Application patterns: `fn f(h, x, g) { s1 s2 s3 }` with every sequence of 1..3 statements `a(b)`, a, b in
/// {h, x, g}; a second form binds a lambda that applies its parameter. Most are ill-typed in some way (self
/// application, a variable used at two types, infinite types arising in argument or in result position); the type
/// checker has to answer each with a result or a diagnostic.
const APP_VARS: [&str; 3] = ["h", "x", "g"];
fn n_app() -> u64 {
    let n = 9u64; // statements a(b)
    (n + n * n + n * n * n) * 2
}
fn app_text(k: u64) -> String {
    let form = k % 2;
    let mut i = k / 2;
    let mut len = 1;
    let mut block = 9u64;
    while i >= block {
        i -= block;
        len += 1;
        block *= 9;
    }
    let mut stmts = vec![];
    for _ in 0..len {
        let d = (i % 9) as usize;
        i /= 9;
        stmts.push(format!("  {}({})\n", APP_VARS[d / 3], APP_VARS[d % 3]));
    }
    if form == 0 {
        format!("fn f(h, x, g) {{\n{}  0.0\n}}\nfn dsp() {{\n  0.0\n}}\n", stmts.concat())
    } else {
        // the applications happen inside a lambda over g, which is then applied to x
        format!("fn f(h, x) {{\n  let k = |g| {{\n  {}    0.0\n  }}\n  k(x)\n}}\nfn dsp() {{\n  0.0\n}}\n", stmts.concat().replace("\n  ", "\n    "))
    }
}
fn layout(tier: Tier) -> Layout {
    let (l_front, l_comp) = match tier {
        Tier::Quick => (3, 2),
        Tier::Thorough => (4, 3),
    };
    Layout {
        l_front,
        n_front: count_seq(l_front),
        l_comp,
        n_comp: count_seq(l_comp),
        n_ladder: (LADDER_KINDS * NEST_BOUND) as u64,
        n_edit: *edit_space(tier).cum.last().unwrap(),
        n_wit: WITNESS.len() as u64 + n_app(),
    }
}

pub struct Case {
    pub text: String,
    pub family: &'static str,
    pub origin: String,
    /// also run emit_bytecode / emit_wasm
    pub compile: bool,
}

pub fn make_case(tier: Tier, idx: u64) -> Case {
    let l = layout(tier);
    let join = |d: &[usize]| d.iter().map(|&i| SPELLINGS[i]).collect::<Vec<_>>().join(" ");
    if idx < l.n_front {
        return Case {
            text: join(&nth_seq(idx, l.l_front)),
            family: "token_seq",
            origin: String::new(),
            compile: false,
        };
    }
    let idx = idx - l.n_front;
    if idx < l.n_comp {
        return Case {
            text: join(&nth_seq(idx, l.l_comp)),
            family: "token_seq_compile",
            origin: String::new(),
            compile: true,
        };
    }
    let idx = idx - l.n_comp;
    if idx < l.n_ladder {
        let kind = (idx as usize) / NEST_BOUND;
        let d = (idx as usize) % NEST_BOUND + 1;
        let (text, name) = ladder(kind, d);
        return Case {
            text,
            family: "nesting_ladder",
            origin: format!("{name} depth {d}"),
            compile: true,
        };
    }
    let idx = idx - l.n_ladder;
    if idx < l.n_wit && idx >= WITNESS.len() as u64 {
        let k = idx - WITNESS.len() as u64;
        return Case { text: app_text(k), family: "application_pattern", origin: format!("application pattern {k}"), compile: true };
    }
    if idx < l.n_wit {
        return Case {
            text: crate::incfiles::subst(WITNESS[idx as usize]),
            family: "witness",
            origin: format!("witness {idx}"),
            compile: true,
        };
    }
    let idx = idx - l.n_wit;
    let es = edit_space(tier);
    let fi = es.cum.partition_point(|&c| c <= idx) - 1;
    let (ci, spans) = &es.files[fi];
    let f = &corpus()[*ci];
    let k = idx - es.cum[fi];
    let s = SPELLINGS.len() as u64;
    let per_tok = 1 + s + s;
    let nt = spans.len() as u64;
    if k < nt * per_tok {
        let (t, e) = ((k / per_tok) as usize, k % per_tok);
        let (a, b) = spans[t];
        let src = &f.text;
        let (text, what, compile) = if e == 0 {
            (format!("{}{}", &src[..a], &src[b..]), format!("delete token {t}"), true)
        } else if e <= s {
            (
                format!("{}{}{}", &src[..a], SPELLINGS[(e - 1) as usize], &src[b..]),
                format!("substitute token {t} by {:?}", SPELLINGS[(e - 1) as usize]),
                false,
            )
        } else {
            (
                format!("{}{} {}", &src[..a], SPELLINGS[(e - 1 - s) as usize], &src[a..]),
                format!("insert {:?} before token {t}", SPELLINGS[(e - 1 - s) as usize]),
                false,
            )
        };
        Case {
            text,
            family: "corpus_token_edit",
            origin: format!("{}: {what}", f.path.display()),
            compile,
        }
    } else {
        let cut = (k - nt * per_tok) as usize;
        Case {
            text: String::from_utf8_lossy(&f.text.as_bytes()[..cut]).into_owned(),
            family: "corpus_truncation",
            origin: format!("{}@{cut}", f.path.display()),
            compile: true,
        }
    }
}

fn builtin_types() -> &'static Vec<(Symbol, TypeNodeId)> {
    static B: OnceLock<Vec<(Symbol, TypeNodeId)>> = OnceLock::new();
    B.get_or_init(|| {
        let mut ctx = ExecContext::new([].into_iter(), None, Config::default());
        ctx.add_system_plugin(mimium_scheduler::get_default_scheduler_plugin());
        ctx.prepare_compiler();
        ctx.get_compiler().unwrap().get_ext_typeinfos()
    })
}

pub fn check_labels(src: &str, errs: &[Box<dyn ReportableError>], stage: &str, fails: &mut Vec<Fail>) {
    for e in errs {
        let labels = match catch(|| e.get_labels()) {
            Ok(l) => l,
            Err(m) => {
                fails.push(Fail {
                    clause: "get_labels_panic".into(),
                    detail: format!("{stage}: {m}"),
                });
                continue;
            }
        };
        for (loc, msg) in labels {
            let p = loc.path.to_string_lossy();
            if !(p.is_empty() || p == INPUT_PATH) {
                continue;
            }
            let (a, b) = (loc.span.start, loc.span.end);
            if a > b || b > src.len() {
                fails.push(Fail {
                    clause: "span_outside_text".into(),
                    detail: format!("{stage}: span {a}..{b} text len {} msg {msg:?}", src.len()),
                });
            } else if !src.is_char_boundary(a) || !src.is_char_boundary(b) {
                fails.push(Fail {
                    clause: if (a, b) == (0, 1) { "placeholder_span_0_1_not_on_char_boundary" } else { "span_not_on_char_boundary" }.into(),
                    detail: format!("{stage}: span {a}..{b} msg {msg:?}"),
                });
            }
        }
    }
}

/// returns (outcome label, had_errors)
pub fn run_frontend(src: &str, fails: &mut Vec<Fail>) -> (String, bool) {
    if let Err(m) = catch(|| parser::tokenize(src)) {
        fails.push(Fail {
            clause: "tokenize_panic".into(),
            detail: m,
        });
        return ("panic".into(), true);
    }
    let parsed = catch(|| parser::parse_to_expr(src, Some(PathBuf::from(INPUT_PATH))));
    let (ast, module_info, perrs) = match parsed {
        Ok(x) => x,
        Err(m) => {
            fails.push(Fail {
                clause: "parse_panic".into(),
                detail: m,
            });
            return ("panic".into(), true);
        }
    };
    check_labels(src, &perrs, "parse", fails);
    let np = perrs.len();
    let tc = catch(|| {
        let ast = if ast.has_staging_constructs() {
            ast.wrap_to_staged_expr()
        } else {
            ast
        };
        let (_, _, errs) = mirgen::typecheck_with_module_info(ast, builtin_types(), None, module_info);
        errs
    });
    match tc {
        Err(m) => {
            fails.push(Fail {
                clause: "typecheck_panic".into(),
                detail: m,
            });
            ("panic".into(), true)
        }
        Ok(terrs) => {
            check_labels(src, &terrs, "typecheck", fails);
            (
                format!("perr={}:terr={}", np.min(3), terrs.len().min(3)),
                np > 0 || !terrs.is_empty(),
            )
        }
    }
}

pub fn run_compile(src: &str, had_errors: bool, fails: &mut Vec<Fail>) -> String {
    let mut lab = String::new();
    for backend in ["bytecode", "wasm"] {
        let r = catch(|| {
            let mut ctx = ExecContext::new([].into_iter(), Some(PathBuf::from(INPUT_PATH)), Config::default());
            ctx.add_system_plugin(mimium_scheduler::get_default_scheduler_plugin());
            ctx.prepare_compiler();
            let c = ctx.get_compiler().unwrap();
            if backend == "bytecode" {
                c.emit_bytecode(src).map(|_| ())
            } else {
                c.emit_wasm(src).map(|_| ())
            }
        });
        match r {
            Err(m) => {
                if had_errors {
                    fails.push(Fail {
                        clause: format!("emit_{backend}_panic_on_erroneous_text"),
                        detail: m,
                    });
                }
                // a panic on an error-free text is C03's subject, not C04's
                lab.push_str(if had_errors { ":P" } else { ":p" });
            }
            Ok(Ok(())) => {
                if had_errors {
                    fails.push(Fail {
                        clause: format!("emit_{backend}_accepts_erroneous_text"),
                        detail: "front end reported errors but the compile entry point returned Ok".into(),
                    });
                }
                lab.push_str(":ok");
            }
            Ok(Err(errs)) => {
                if errs.is_empty() {
                    fails.push(Fail {
                        clause: format!("emit_{backend}_err_without_diagnostic"),
                        detail: String::new(),
                    });
                }
                check_labels(src, &errs, backend, fails);
                lab.push_str(":err");
            }
        }
    }
    lab
}

pub struct C04;
impl Prop for C04 {
    fn id(&self) -> &'static str {
        "C04"
    }
    fn n_cases(&self, tier: Tier) -> u64 {
        let l = layout(tier);
        l.n_front + l.n_comp + l.n_ladder + l.n_wit + l.n_edit
    }
    fn chunk(&self, _t: Tier) -> u64 {
        1000
    }
    fn stack_bytes(&self) -> usize {
        2 << 20
    }
    fn case_cap_ms(&self) -> u64 {
        5000
    }
    fn recycle_after(&self) -> u64 {
        100_000
    }
    fn run_case(&self, tier: Tier, idx: u64) -> CaseOut {
        let c = make_case(tier, idx);
        let mut fails = vec![];
        let (mut outcome, had_errors) = run_frontend(&c.text, &mut fails);
        if c.compile {
            outcome.push_str(&run_compile(&c.text, had_errors, &mut fails));
        }
        CaseOut {
            key: fnv(c.text.as_bytes()) ^ (c.compile as u64),
            nontrivial: !c.text.is_empty(),
            outcome,
            fails,
            tags: {
                let mut t = vec![c.family.to_string()];
                if c.text.chars().next().map(|ch| ch.len_utf8() > 1).unwrap_or(false) {
                    t.push("first_char_multibyte".into());
                }
                t
            },
            repr: json!({"family": c.family, "origin": c.origin, "text": c.text.chars().take(300).collect::<String>(), "bytes": c.text.len()}),
            counters: vec![(format!("family_{}", c.family), 1)],
        }
    }
    fn describe_case(&self, tier: Tier, idx: u64) -> (Value, Vec<String>) {
        let c = make_case(tier, idx);
        (
            json!({"family": c.family, "origin": c.origin, "text": c.text.chars().take(300).collect::<String>()}),
            vec![c.family.to_string()],
        )
    }
    fn crash_clause(&self) -> &'static str {
        "crash_or_hang"
    }
    fn describe(&self, tier: Tier) -> Descr {
        let l = layout(tier);
        let es = edit_space(tier);
        Descr {
            rule: format!(
                "(a) every sequence of 0..={} token spellings (72 spellings covering every token kind the lexer emits, incl. non-ASCII identifier, both comment kinds, an error character and an unterminated string) joined by one space: tokenize + parse_to_expr + typecheck_with_module_info ({} texts); \
                 (a') the same up to length {} additionally through emit_bytecode and emit_wasm ({} texts); \
                 (b) for each of the {} smallest corpus files every deviation-1 token edit (delete / substitute by each spelling / insert each spelling) at every token and every byte truncation ({} texts; compile entry points on deletions and truncations); \
                 (c) {} nesting ladders x every depth 1..={} ({} texts), all on a 2 MiB stack; (d) {} hand-written witness programs around constructs that once crashed a pass (cyclic type aliases, array-element assignment, projection at the arity, open parameter packs, qualified macro callee, odd assignment targets), compiled unedited. distinct = FNV-64 of text; non-trivial = non-empty.",
                l.l_front, l.n_front, l.l_comp, l.n_comp, es.files.len(), l.n_edit, LADDER_KINDS, NEST_BOUND, l.n_ladder, l.n_wit
            ),
            assumptions: vec![
                format!("stated nesting bound B = {NEST_BOUND} on a 2 MiB stack in the harness build profile (opt-level 2)"),
                "a crash of a compile entry point on a text for which the front end reported no error is left to C03".into(),
                "spans are checked for diagnostics whose path is the input path or empty".into(),
            ],
            bounds: json!({"token_seq_len": l.l_front, "token_seq_compile_len": l.l_comp, "nest_bound": NEST_BOUND, "corpus_files_edited": es.files.len()}),
            shape: "E",
        }
    }
    fn vacuity(&self, _t: Tier, c: &BTreeMap<String, u64>) -> Vec<String> {
        ["family_token_seq", "family_token_seq_compile", "family_nesting_ladder", "family_corpus_token_edit", "family_corpus_truncation"]
            .iter()
            .filter(|k| c.get(**k).copied().unwrap_or(0) == 0)
            .map(|k| format!("family {k} empty"))
            .collect()
    }
}
