//! C06 — hot-swapping an unchanged program is inaudible.
//! Shape S: system = running runtime; events Step (default) and Swap(fresh compilation of the
//! same text) (deviation). All histories with <= T steps and <= s swaps are executed on the real
//! runtime by re-execution from the initial state; every step's observation must equal the
//! uninterrupted run's, and histories with the same number of steps must reach one state.

use crate::engine::*;
use crate::pc::*;
use crate::run::{Backend, Run, RunErr, SwapMode, bits_eq};
use serde_json::{Value, json};
use std::collections::{BTreeMap, HashSet};
use std::sync::OnceLock;

pub struct C06;

fn space(tier: Tier) -> &'static Space {
    static Q: OnceLock<Space> = OnceLock::new();
    static T: OnceLock<Space> = OnceLock::new();
    match tier {
        Tier::Quick => Q.get_or_init(|| Space::new(&[("FS", 2), ("FA", 2)])),
        Tier::Thorough => T.get_or_init(|| Space::new(&[("FS", 2), ("FA", 3), ("FC", 2)])),
    }
}
/// (T steps, max swaps on VM, WASM: every how-many-th program gets the WASM histories)
fn params(tier: Tier) -> (usize, usize, u64) {
    match tier {
        Tier::Quick => (8, 2, 23),
        Tier::Thorough => (14, 3, 5),
    }
}

/// all non-decreasing sequences of swap points (each in 0..=t) of length 0..=s
fn histories(t: usize, s: usize) -> Vec<Vec<usize>> {
    let mut out = vec![vec![]];
    let mut cur: Vec<Vec<usize>> = vec![vec![]];
    for _ in 0..s {
        let mut next = vec![];
        for h in &cur {
            let lo = h.last().copied().unwrap_or(0);
            for p in lo..=t {
                let mut h2 = h.clone();
                h2.push(p);
                next.push(h2);
            }
        }
        out.extend(next.iter().cloned());
        cur = next;
    }
    out
}

struct Hist {
    out: Vec<Vec<f64>>,
    states: Vec<Vec<u64>>,
}

/// run one history: swaps[i] = number of steps executed before the i-th swap
fn run_history(b: Backend, mode: SwapMode, src: &str, nin: usize, stream_i: usize, t: usize, swaps: &[usize]) -> Result<Hist, String> {
    let inputs = inputs_for(stream_i, nin);
    let mut r = Run::start(b, src, false).map_err(|e| format!("start: {e:?}"))?;
    let mut h = Hist { out: vec![], states: vec![] };
    let mut si = 0;
    for step in 0..=t {
        while si < swaps.len() && swaps[si] == step {
            match r.swap(src, mode) {
                Ok(true) => {}
                Ok(false) => return Err(format!("try_hot_swap returned false at step {step}")),
                Err(RunErr::Compile(e)) => return Err(format!("recompilation of the same text rejected: {e:?}")),
                Err(RunErr::Crash(m)) => return Err(format!("swap crashed at step {step}: {m}")),
            }
            si += 1;
        }
        if step == t {
            break;
        }
        let o = r.step(step as u64, &inputs(step)).map_err(|e| format!("step {step}: {e:?}"))?;
        h.out.push(o);
        h.states.push(r.state().0);
    }
    Ok(h)
}

impl Prop for C06 {
    fn id(&self) -> &'static str {
        "C06"
    }
    fn n_cases(&self, tier: Tier) -> u64 {
        space(tier).n()
    }
    fn chunk(&self, _t: Tier) -> u64 {
        20
    }
    fn recycle_after(&self) -> u64 {
        400
    }
    fn case_cap_ms(&self) -> u64 {
        120_000
    }
    fn run_case(&self, tier: Tier, idx: u64) -> CaseOut {
        let (fname, g) = space(tier).get(idx);
        let Some(g) = g else {
            return CaseOut { key: idx, nontrivial: false, outcome: "invalid_index".into(), counters: vec![(format!("invalid_{fname}"), 1)], ..Default::default() };
        };
        let src = g.source();
        let tags = g.tags();
        // The property speaks of programs whose signal state lives in self / mem / delay cells. A closure bound at
        // global scope that counts in a captured variable (`let gc = mkcounter()`) keeps signal state outside any cell;
        // re-running the global initialiser on a swap re-creates it, which the property does not forbid.
        if src.lines().any(|l| l.starts_with("let gc = mkcounter()")) {
            return CaseOut { key: fnv(src.as_bytes()), nontrivial: false, outcome: "out_of_scope_state_in_a_global_closure".into(), tags, repr: gen_repr(&g, &src), counters: vec![("out_of_scope".into(), 1)], ..Default::default() };
        }
        let (t, smax, wasm_every) = params(tier);
        let mut fails: Vec<Fail> = vec![];
        let mut counters: Vec<(String, u64)> = vec![(format!("family_{}", g.family), 1)];
        let mut outcome = "inaudible";
        let mut stateful = false;
        let mut states_seen: HashSet<u64> = HashSet::new();
        let mut transitions = 0u64;
        let mut traces = 0u64;
        let cfgs: Vec<(Backend, SwapMode, usize)> = {
            // quick tier: multi-swap histories only for one-operation programs
            let s_vm = if tier == Tier::Quick && g.ops.len() > 1 { 1 } else { smax };
            let mut v = vec![(Backend::Vm, SwapMode::InProcess, s_vm)];
            if idx % wasm_every == 0 || g.ops.len() <= 1 {
                v.push((Backend::Wasm, SwapMode::InProcess, 1));
                v.push((Backend::Wasm, SwapMode::Subprocess, 1));
            }
            v
        };
        'cfg: for (b, mode, s) in cfgs {
            let stream_i = 0;
            let base = match run_history(b, mode, &src, g.inputs, stream_i, t, &[]) {
                Ok(h) => h,
                Err(m) => {
                    // a program that does not run uninterrupted is not C06's subject (C02/C03)
                    outcome = "does_not_run";
                    let _ = m;
                    break 'cfg;
                }
            };
            if base.states.iter().any(|s| !s.is_empty()) {
                stateful = true;
            } else {
                outcome = "stateless";
                break 'cfg;
            }
            for hist in histories(t, s) {
                if hist.is_empty() {
                    continue;
                }
                traces += 1;
                transitions += (t + hist.len()) as u64;
                let label = format!("{} {:?} swaps at {:?}", b.name(), mode, hist);
                match run_history(b, mode, &src, g.inputs, stream_i, t, &hist) {
                    Err(m) => {
                        outcome = "audible";
                        fails.push(Fail { clause: format!("{}_swap_failed", b.name()), detail: format!("{label}: {m}") });
                    }
                    Ok(h) => {
                        if let Some((_, d)) = first_diff(&h.out, &base.out, bits_eq) {
                            outcome = "audible";
                            fails.push(Fail {
                                clause: format!("{}_output_differs_after_swap", b.name()),
                                detail: format!("{label}: {d} (swapped vs uninterrupted); swapped={} uninterrupted={}", show(&h.out, t), show(&base.out, t)),
                            });
                        } else if let Some(k) = (0..h.states.len()).find(|&k| {
                            let (a, c) = (&h.states[k], &base.states[k]);
                            let n = a.len().max(c.len());
                            (0..n).any(|i| a.get(i).copied().unwrap_or(0) != c.get(i).copied().unwrap_or(0))
                        }) {
                            outcome = "audible";
                            fails.push(Fail {
                                clause: format!("{}_state_differs_after_swap", b.name()),
                                detail: format!("{label}: after step {k} state {:?} vs uninterrupted {:?}", h.states[k], base.states[k]),
                            });
                        }
                        for (k, st) in h.states.iter().enumerate() {
                            let mut key = vec![b as u8, k as u8];
                            // zero-extended canonical form
                            let mut w = st.clone();
                            while w.last() == Some(&0) {
                                w.pop();
                            }
                            for x in w {
                                key.extend_from_slice(&x.to_le_bytes());
                            }
                            states_seen.insert(fnv(&key));
                        }
                    }
                }
                if fails.len() >= 6 {
                    break 'cfg;
                }
            }
        }
        counters.push(("states".into(), states_seen.len() as u64));
        counters.push(("transitions".into(), transitions));
        counters.push(("traces".into(), traces));
        fails.sort_by(|a, b| a.clause.cmp(&b.clause));
        fails.dedup_by(|a, b| a.clause == b.clause);
        CaseOut { key: fnv(src.as_bytes()), nontrivial: stateful && traces > 0, outcome: outcome.into(), fails, tags, repr: gen_repr(&g, &src), counters }
    }
    fn describe_case(&self, tier: Tier, idx: u64) -> (Value, Vec<String>) {
        match space(tier).get(idx).1 {
            Some(g) => (gen_repr(&g, &g.source()), g.tags()),
            None => (json!({"idx": idx}), vec![]),
        }
    }
    fn crash_clause(&self) -> &'static str {
        "process_crash_or_hang"
    }
    fn describe(&self, tier: Tier) -> Descr {
        let (t, s, we) = params(tier);
        Descr {
            rule: format!(
                "for every stateful program of the families {}: all histories of {t} steps with 1..={s} swaps (quick tier: more than one swap only for one-operation programs) to a fresh compilation of the same text at every non-decreasing tuple of split points in 0..={t} (two swaps with no step between included) on the VM (VmDspRuntime::try_hot_swap / Machine::new_resume), and for every one-operation program and every {we}-th other program all single-swap histories on WASM with both payload variants the CLI prepares (in-process: skeleton known; subprocess: none); each history is executed on the real runtime by re-execution from the initial state and every step's outputs (bitwise) and state words are compared with the uninterrupted run. states = distinct (backend, step, state words); transitions = events executed; non-trivial = program has state words and at least one history ran.",
                space(tier).describe()
            ),
            assumptions: vec![
                "programs that keep signal state in a variable captured by a closure bound at global scope are outside the property's subject (state in self/mem/delay cells) and are counted as out_of_scope, not evaluated".into(),
                "swaps go through mimium-cli's real file runner (cfg-guarded hook H6: FileRunner::recompile_file_inprocess on the VM, FileRunner::prepare_hot_swap_wasm_payload on WASM, the latter with module bytes compiled in-process instead of by the CLI's compiler subprocess, with and without skeleton/signatures)".into(),
                "programs that do not run uninterrupted are left to C02/C03".into(),
            ],
            bounds: json!({"steps": t, "max_swaps_vm": s, "max_swaps_wasm": 1, "wasm_every_nth_program": we}),
            shape: "S",
        }
    }
    fn vacuity(&self, _t: Tier, c: &BTreeMap<String, u64>) -> Vec<String> {
        let mut v = vec![];
        if c.get("traces").copied().unwrap_or(0) == 0 {
            v.push("no history executed".into());
        }
        v
    }
}
