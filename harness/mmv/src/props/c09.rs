//! C09 — staged (macro) code means the same as the code it generates: every stage-1 expression of
//! a menu placed in every staging context must behave exactly like its hand-written expansion
//! (built here, not by the compiler); lifted numbers keep their exact value.

use crate::engine::*;
use crate::pc::*;
use crate::run::{Backend, RunErr, bits_eq, full_run};
use crate::xform;
use std::cell::RefCell;
use std::sync::OnceLock;
use serde_json::{Value, json};
use std::collections::BTreeMap;

pub struct C09;

/// stage-1 expressions over dsp's parameter x (and the helper cnt)
const EXPRS: [&str; 21] = [
    "x + 1.0",
    "x * x - 0.5",
    "cnt(x)",
    "mem(x)",
    "delay(3.0, x, 1.0)",
    "if (x) 1.0 else 2.0",
    "(x, 2.0).0",
    "{a = x, b = 3.0}.b",
    "{\n    let q = x + 1.0\n    q * 2.0\n  }",
    "{\n    let f = |y| y + x\n    f(1.0)\n  }",
    "cnt(1.0) + cnt(2.0)",
    "now + samplerate / 48000.0",
    "sin(x) + sqrt(x + 4.0)",
    "x |> cnt",
    "{\n    let v = x\n    let g = | | {\n      v = v + 1.0\n      v\n    }\n    g() + v\n  }",
    "0.1 + 0.2",
    "{\n    let (a, (b, c)) = (x, (2.0, 3.0))\n    a + b * 10.0 + c * 100.0\n  }",
    "{\n    let ((a, (b, c)), (d, e)) = ((x, (2.0, 3.0)), (4.0, 5.0))\n    a + b * 10.0 + c * 100.0 + d * 1000.0 + e * 10000.0\n  }",
    "{\n    let (((p, q), r), (s, (t, u))) = (((x, 2.0), 3.0), (4.0, (5.0, 6.0)))\n    p + q * 10.0 + r * 100.0 + s * 1000.0 + t * 10000.0 + u * 100000.0\n  }",
    "{\n    let r = {a = x, b = (2.0, 3.0)}\n    let r2 = {r <- a = 7.0}\n    r2.a + r.a + r2.b.1\n  }",
    "{\n    let {b = q, a = p} = {a = x, b = 2.0}\n    p * 10.0 + q\n  }",
];
/// contexts: (name, staged text with @E@, expansion text with @E@)
const CONTEXTS: [(&str, &str, &str); 9] = [
    ("quote then splice", "$(`(@E@))", "(@E@)"),
    ("identity macro", "id!(`(@E@))", "(@E@)"),
    ("splice of a macro-stage let (once)", "$(once(`(@E@)))", "(@E@)"),
    ("splice of a macro-stage let (twice)", "$(twice(`(@E@)))", "((@E@) + (@E@))"),
    ("f!(a) sugar", "dbl!(`(@E@))", "((@E@) * 2.0)"),
    ("$(f(a)) explicit", "$(dbl(`(@E@)))", "((@E@) * 2.0)"),
    ("nested quote/splice", "$(`($(`(@E@)) + 1.0))", "((@E@) + 1.0)"),
    ("two-argument macro", "add2!(`(@E@), `(x))", "((@E@) + (x))"),
    ("macro calling a macro", "quad!(`(@E@))", "(((@E@) * 2.0) * 2.0)"),
];
const MACRO_DEFS: &str = "#stage(macro)\nfn id(c) {\n  c\n}\nfn once(c) {\n  let k = c\n  k\n}\nfn twice(c) {\n  let k = c\n  `{ $k + $k }\n}\nfn dbl(a) {\n  `{ $a * 2.0 }\n}\nfn add2(a, b) {\n  `{ $a + $b }\n}\nfn quad(a) {\n  dbl(dbl(a))\n}\nfn genpower(n) {\n  letrec aux = |n1, v| {\n    if (n1 > 0.0) {\n      `{ $(aux(n1 - 1.0, v)) * $v }\n    } else {\n      `1.0\n    }\n  }\n  `{ |v| $(aux(n, `v)) }\n}\n#stage(main)\n";
const HELPERS: &str = "fn cnt(p) {\n  self + p\n}\n";

/// macro-stage numeric computations lifted into generated code, with the value the harness computes
fn lifts() -> Vec<(&'static str, f64)> {
    vec![
        ("0.1 + 0.2", 0.1 + 0.2),
        ("1.0 / 3.0", 1.0 / 3.0),
        ("2.0 ^ 53.0 + 1.0", 2f64.powf(53.0) + 1.0),
        ("1.0 / 0.0", f64::INFINITY),
        ("10.0 ^ 300.0", 10f64.powf(300.0)),
        ("10.0 ^ 300.0 * 10.0 ^ 8.0", 10f64.powf(300.0) * 10f64.powf(8.0)),
        ("0.000001 * 0.000001", 0.000001 * 0.000001),
        ("1.0 - 0.9", 1.0 - 0.9),
        ("sqrt(2.0)", 2f64.sqrt()),
        ("0.0 - 0.0", 0.0),
        ("123456789.0 * 987654321.0", 123456789.0 * 987654321.0),
        ("1.0 / 3.0 * 3.0", 1.0 / 3.0 * 3.0),
    ]
}
fn n_main() -> u64 {
    (EXPRS.len() * CONTEXTS.len()) as u64
}
const NPOW: u64 = 5;

/// programs of the families with one expression node quoted and spliced back (every node x every mode)
fn space(tier: Tier) -> &'static Space {
    static Q: OnceLock<Space> = OnceLock::new();
    static T: OnceLock<Space> = OnceLock::new();
    match tier {
        Tier::Quick => Q.get_or_init(|| Space::new(&[("FS", 1), ("FC", 2), ("FA", 2)])),
        Tier::Thorough => T.get_or_init(|| Space::new(&[("FS", 2), ("FC", 3), ("FA", 2)])),
    }
}
/// positions per program (programs with more nodes are reported through the counter `node_cap_exceeded`)
const NODE_CAP: u64 = 64;
fn n_modes() -> u64 {
    xform::STAGE_MODES.len() as u64
}
fn n_fixed() -> u64 {
    n_main() + NPOW + lifts().len() as u64 + n_lift_shapes() + n_pipes()
}
/// Placeholder pipes (`a ||> f(_, b)` is sugar for a macro-stage lambda with a quoted body): every expression built from
/// two atoms with the call shapes g1(_), f2(_, A), f2(A, _) where A is an atom or again such a pipe (nesting depth 2), and
/// every chain `P ||> call`; each plain and inside a quotation that is spliced back. (sugar, hand expansion)
fn pipe_exprs() -> &'static Vec<(String, String)> {
    static P: OnceLock<Vec<(String, String)>> = OnceLock::new();
    P.get_or_init(|| {
        let atoms = ["x", "5.0"];
        // depth 1
        let mut d1: Vec<(String, String)> = vec![];
        for a in atoms {
            d1.push((format!("{a} ||> g1(_)"), format!("g1({a})")));
            for b in atoms {
                d1.push((format!("{a} ||> f2(_, {b})"), format!("f2({a}, {b})")));
                d1.push((format!("{a} ||> f2({b}, _)"), format!("f2({b}, {a})")));
            }
        }
        let mut v = d1.clone();
        // a pipe in argument position of the partially applied call
        for a in atoms {
            for (s, e) in &d1 {
                v.push((format!("{a} ||> f2(_, {s})"), format!("f2({a}, {e})")));
                v.push((format!("{a} ||> f2({s}, _)"), format!("f2({e}, {a})")));
            }
        }
        // chains: the piped value is itself a pipe
        for (s, e) in &d1 {
            v.push((format!("{s} ||> g1(_)"), format!("g1({e})")));
            for b in atoms {
                v.push((format!("{s} ||> f2(_, {b})"), format!("f2({e}, {b})")));
                v.push((format!("{s} ||> f2({b}, _)"), format!("f2({b}, {e})")));
            }
        }
        // three levels in argument position
        v.push(("x ||> f2(_, 2.0 ||> f2(_, 3.0 ||> g1(_)))".into(), "f2(x, f2(2.0, g1(3.0)))".into()));
        v.push(("x ||> f2(2.0 ||> f2(3.0 ||> g1(_), _), _)".into(), "f2(f2(g1(3.0), 2.0), x)".into()));
        v
    })
}
fn n_pipes() -> u64 {
    pipe_exprs().len() as u64 * 2
}
fn build_pipe(k: u64) -> Case {
    let (s, e) = &pipe_exprs()[(k / 2) as usize];
    let defs = "fn g1(a) {\n  a * 3.0 + 1.0\n}\nfn f2(a, b) {\n  a * 10.0 + b\n}\n";
    let staged = if k % 2 == 0 { format!("{defs}fn dsp(x) {{\n  {s}\n}}\n") } else { format!("{defs}fn dsp(x) {{\n  $(`({s}))\n}}\n") };
    let expanded = format!("{defs}fn dsp(x) {{\n  {e}\n}}\n");
    Case::Pair { staged, expanded, what: format!("placeholder pipe{}: {s}", if k % 2 == 0 { "" } else { " inside a quotation" }) }
}
fn n_family(tier: Tier) -> u64 {
    space(tier).n() * NODE_CAP * n_modes()
}
thread_local! {
    /// outputs of the last base program (the hand-written expansion of all its staged variants) per backend
    static BASE: RefCell<Option<(u64, Vec<(Backend, Result<Vec<Vec<f64>>, RunErr>)>)>> = const { RefCell::new(None) };
}

enum Case {
    Pair { staged: String, expanded: String, what: String },
    Lift { src: String, expect: f64, what: String },
}
/// Structured values computed at the macro stage and lifted with the polymorphic `lift`: an array of two rows of one
/// of these shapes (every leaf a distinct number), read back row by row with a destructuring pattern.
/// (shape name, row constructor over a row number i, pattern, weighted sum of the pattern's variables)
const LIFT_SHAPES: [(&str, &str, &str, &str); 7] = [
    ("flat triple", "(@I@ + 0.1, @I@ + 0.2, @I@ + 0.3)", "(a, b, c)", "a * 100.0 + b * 10.0 + c"),
    ("pair first", "((@I@ + 0.1, @I@ + 0.2), @I@ + 0.3)", "((a, b), c)", "a * 100.0 + b * 10.0 + c"),
    ("pair last", "(@I@ + 0.1, (@I@ + 0.2, @I@ + 0.3))", "(a, (b, c))", "a * 100.0 + b * 10.0 + c"),
    ("pair in the middle", "(@I@ + 0.1, (@I@ + 0.2, @I@ + 0.3), @I@ + 0.4)", "(a, (b, c), d)", "a * 1000.0 + b * 100.0 + c * 10.0 + d"),
    ("two pairs", "((@I@ + 0.1, @I@ + 0.2), (@I@ + 0.3, @I@ + 0.4))", "((a, b), (c, d))", "a * 1000.0 + b * 100.0 + c * 10.0 + d"),
    ("pair in a pair first", "(((@I@ + 0.1, @I@ + 0.2), @I@ + 0.3), @I@ + 0.4)", "(((a, b), c), d)", "a * 1000.0 + b * 100.0 + c * 10.0 + d"),
    ("record with a pair in the middle", "{p = @I@ + 0.1, q = (@I@ + 0.2, @I@ + 0.3), r = @I@ + 0.4}", "w", "w.p * 1000.0 + w.q.0 * 100.0 + w.q.1 * 10.0 + w.r"),
];
fn n_lift_shapes() -> u64 {
    LIFT_SHAPES.len() as u64 * 2
}
fn build_lift_shape(k: u64) -> Case {
    let (name, row, pat, sum) = LIFT_SHAPES[(k / 2) as usize];
    let read = k % 2;
    let rows = format!("[{}, {}]", row.replace("@I@", "1.0"), row.replace("@I@", "2.0"));
    let body = format!("  let {pat} = rows[{read}]\n  {sum}");
    let staged = format!("#stage(macro)\nfn table() {{\n  let rows = {rows}\n  rows |> lift\n}}\n#stage(main)\nfn dsp(x) {{\n  let rows = table!()\n{body}\n}}\n");
    let expanded = format!("fn dsp(x) {{\n  let rows = {rows}\n{body}\n}}\n");
    Case::Pair { staged, expanded, what: format!("lift of structured rows: {name}, row {read}") }
}
fn build(idx: u64) -> Case {
    if idx < n_main() {
        let (ei, ci) = ((idx / CONTEXTS.len() as u64) as usize, (idx % CONTEXTS.len() as u64) as usize);
        let (name, st, ex) = CONTEXTS[ci];
        let staged = format!("{MACRO_DEFS}{HELPERS}fn dsp(x) {{\n  {}\n}}\n", st.replace("@E@", EXPRS[ei]));
        let expanded = format!("{HELPERS}fn dsp(x) {{\n  {}\n}}\n", ex.replace("@E@", EXPRS[ei]));
        return Case::Pair { staged, expanded, what: format!("{name}: {}", EXPRS[ei].replace('\n', " ")) };
    }
    let k = idx - n_main();
    if k < NPOW {
        let prod = if k == 0 { "1.0".to_string() } else { format!("1.0{}", " * x".repeat(k as usize)) };
        let staged = format!("{MACRO_DEFS}fn dsp(x) {{\n  genpower!({k}.0)(x)\n}}\n");
        let expanded = format!("fn dsp(x) {{\n  {prod}\n}}\n");
        return Case::Pair { staged, expanded, what: format!("code-building recursion genpower({k})") };
    }
    if k >= NPOW + lifts().len() as u64 + n_lift_shapes() {
        return build_pipe(k - NPOW - lifts().len() as u64 - n_lift_shapes());
    }
    if k >= NPOW + lifts().len() as u64 {
        return build_lift_shape(k - NPOW - lifts().len() as u64);
    }
    let (e, v) = lifts()[(k - NPOW) as usize];
    Case::Lift { src: format!("fn dsp(x) {{\n  $(({e}) |> lift_f)\n}}\n"), expect: v, what: format!("lift_f({e})") }
}

struct FamCase {
    base_idx: u64,
    base: String,
    staged: String,
    what: String,
    tags: Vec<String>,
    inputs: usize,
    family: &'static str,
    over_cap: bool,
}
fn family_case(tier: Tier, k: u64) -> Option<FamCase> {
    let per = NODE_CAP * n_modes();
    let (base_idx, r) = (k / per, k % per);
    let (node, mode) = (r / n_modes(), (r % n_modes()) as usize);
    let (family, g) = space(tier).get(base_idx);
    let g = g?;
    let nodes = xform::n_nodes(&g.prog);
    if node >= nodes {
        return None;
    }
    let (q, ctx) = xform::stage_at(&g.prog, node, mode);
    let role = ctx.split(' ').next().unwrap_or("").to_string();
    let node_kind = ctx.rsplit(' ').next().unwrap_or("").to_string();
    let mut tags = g.tags();
    tags.push(format!("context:{}", xform::STAGE_MODES[mode]));
    tags.push(format!("staged_role_{role}"));
    tags.push(format!("staged_kind_{node_kind}"));
    let prelude = if mode == 0 { "" } else { xform::STAGE_PRELUDE };
    Some(FamCase {
        base_idx,
        base: g.source(),
        staged: format!("{prelude}{}", crate::lang::print(&q)),
        what: format!("{}: node {node} ({ctx}) of a {family} program", xform::STAGE_MODES[mode]),
        tags,
        inputs: g.inputs,
        family,
        over_cap: node == 0 && mode == 0 && nodes > NODE_CAP,
    })
}
fn run_family_case(tier: Tier, k: u64) -> CaseOut {
    let Some(fc) = family_case(tier, k) else {
        return CaseOut { key: k, nontrivial: false, outcome: "no_such_node".into(), ..Default::default() };
    };
    let n = if tier == Tier::Thorough { 16 } else { 8 };
    let backends: &[Backend] = if tier == Tier::Thorough || k % 8 == 0 { &[Backend::Vm, Backend::Wasm] } else { &[Backend::Vm] };
    let obs = |b: Backend, src: &str| run_backend(b, src, false, fc.inputs, 0, n, false).map(|f| f.out);
    let mut fails = vec![];
    let mut outcome = "same".to_string();
    let mut ran = false;
    for &b in backends {
        // the expansion is the untransformed program: run once per backend and shared by all its staged variants
        let cached = BASE.with(|c| c.borrow().as_ref().and_then(|(i, v)| if *i == fc.base_idx { v.iter().find(|(bb, _)| *bb == b).map(|(_, r)| r.clone()) } else { None }));
        let c = match cached {
            Some(r) => r,
            None => {
                let r = obs(b, &fc.base);
                BASE.with(|c| {
                    let mut c = c.borrow_mut();
                    match c.as_mut() {
                        Some((i, v)) if *i == fc.base_idx => v.push((b, r.clone())),
                        _ => *c = Some((fc.base_idx, vec![(b, r.clone())])),
                    }
                });
                r
            }
        };
        let a = obs(b, &fc.staged);
        match (&a, &c) {
            (Ok(x), Ok(y)) => {
                ran = true;
                if let Some((_, d)) = first_diff(x, y, bits_eq) {
                    outcome = "differs".into();
                    fails.push(Fail { clause: format!("{}_staged_differs_from_expansion", b.name()), detail: format!("{}: {d} (staged vs the program without the quote/splice); staged={} expansion={}", fc.what, show(x, 6), show(y, 6)) });
                }
            }
            (Err(RunErr::Compile(_)), Err(RunErr::Compile(_))) => outcome = "both_rejected".into(),
            (_, Err(_)) => outcome = "expansion_does_not_run".into(),
            (Err(e), Ok(_)) => {
                outcome = "differs".into();
                let (kk, m) = match e {
                    RunErr::Compile(es) => ("rejected", es.join(" | ")),
                    RunErr::Crash(m) => ("crashes", m.clone()),
                };
                fails.push(Fail { clause: format!("{}_staged_program_{kk}_but_expansion_runs", b.name()), detail: format!("{}: {}", fc.what, m.chars().take(300).collect::<String>()) });
            }
        }
    }
    let mut counters = vec![(format!("context_{}", fc.tags.iter().find(|t| t.starts_with("context:")).map(|t| &t[8..]).unwrap_or("")), 1), (format!("family_{}", fc.family), 1)];
    if fc.over_cap {
        counters.push(("node_cap_exceeded".into(), 1));
    }
    if let Some(t) = fc.tags.iter().find(|t| t.starts_with("staged_kind_")) {
        counters.push((t.clone(), 1));
    }
    CaseOut { key: fnv(fc.staged.as_bytes()), nontrivial: ran, outcome, fails, tags: fc.tags, repr: json!({"what": fc.what, "staged_source": fc.staged, "expanded_source": fc.base}), counters }
}

impl Prop for C09 {
    fn id(&self) -> &'static str {
        "C09"
    }
    fn n_cases(&self, tier: Tier) -> u64 {
        n_fixed() + n_family(tier)
    }
    fn chunk(&self, _t: Tier) -> u64 {
        // a multiple of the positions of one family program, so that a chunk shares its base runs
        NODE_CAP * n_modes()
    }
    fn recycle_after(&self) -> u64 {
        60_000
    }
    fn min_outcomes(&self) -> usize {
        // "same" for every case is the property holding; non-vacuity is guarded by distinct_nontrivial
        1
    }
    fn run_case(&self, tier: Tier, idx: u64) -> CaseOut {
        if idx >= n_fixed() {
            return run_family_case(tier, idx - n_fixed());
        }
        let n = if tier == Tier::Thorough { 24 } else { 8 };
        let inp = |t: usize| vec![stream(if idx % 2 == 0 { 0 } else { 3 }, t)];
        let mut fails = vec![];
        let mut outcome = "same".to_string();
        let mut ran = false;
        let (repr, what, ctxtag);
        match build(idx) {
            Case::Pair { staged, expanded, what: w } => {
                ctxtag = w.split(':').next().unwrap().to_string();
                for b in [Backend::Vm, Backend::Wasm] {
                    let a = full_run(b, &staged, false, n, &inp, false).map(|f| f.out);
                    let c = full_run(b, &expanded, false, n, &inp, false).map(|f| f.out);
                    match (&a, &c) {
                        (Ok(x), Ok(y)) => {
                            ran = true;
                            if let Some((_, d)) = first_diff(x, y, bits_eq) {
                                outcome = "differs".into();
                                fails.push(Fail { clause: format!("{}_staged_differs_from_expansion", b.name()), detail: format!("{w}: {d} (staged vs hand-written expansion); staged={} expansion={}", show(x, 6), show(y, 6)) });
                            }
                        }
                        (Err(RunErr::Compile(_)), Err(RunErr::Compile(_))) => outcome = "both_rejected".into(),
                        (_, Err(_)) => outcome = "expansion_does_not_run".into(),
                        (Err(e), Ok(_)) => {
                            outcome = "differs".into();
                            let (k, m) = match e {
                                RunErr::Compile(es) => ("rejected", es.join(" | ")),
                                RunErr::Crash(m) => ("crashes", m.clone()),
                            };
                            fails.push(Fail { clause: format!("{}_staged_program_{k}_but_expansion_runs", b.name()), detail: format!("{w}: {}", m.chars().take(300).collect::<String>()) });
                        }
                    }
                }
                repr = json!({"what": w, "staged_source": staged, "expanded_source": expanded});
                what = w;
            }
            Case::Lift { src, expect, what: w } => {
                ctxtag = "lift".to_string();
                for b in [Backend::Vm, Backend::Wasm] {
                    match full_run(b, &src, false, 2, &inp, false) {
                        Ok(fr) => {
                            ran = true;
                            let got = fr.out[0][0];
                            if !bits_eq(got, expect) {
                                outcome = "differs".into();
                                fails.push(Fail { clause: format!("{}_lifted_number_not_exact", b.name()), detail: format!("{w}: generated code yields {got:?} ({:#x}), the macro stage computed {expect:?} ({:#x})", got.to_bits(), expect.to_bits()) });
                            }
                        }
                        Err(RunErr::Compile(es)) => {
                            outcome = "rejected".into();
                            fails.push(Fail { clause: format!("{}_lift_program_rejected", b.name()), detail: format!("{w}: {}", es.join(" | ")) });
                        }
                        Err(RunErr::Crash(m)) => {
                            outcome = "crash".into();
                            fails.push(Fail { clause: format!("{}_lift_program_crashes", b.name()), detail: format!("{w}: {m}") });
                        }
                    }
                }
                repr = json!({"what": w, "source": src, "expected_bits": format!("{:#x}", expect.to_bits())});
                what = w;
            }
        }
        CaseOut { key: fnv(what.as_bytes()), nontrivial: ran, outcome, fails, tags: {
                let mut t = vec![format!("context:{ctxtag}")];
                if what.contains("let {") {
                    t.push("record_pattern_in_staged_code".into());
                }
                t
            },
            repr, counters: vec![(format!("context_{ctxtag}"), 1)] }
    }
    fn describe_case(&self, tier: Tier, idx: u64) -> (Value, Vec<String>) {
        if idx >= n_fixed() {
            return match family_case(tier, idx - n_fixed()) {
                Some(fc) => (json!({"what": fc.what, "staged_source": fc.staged, "expanded_source": fc.base}), fc.tags),
                None => (json!({"idx": idx}), vec![]),
            };
        }
        match build(idx) {
            Case::Pair { staged, what, .. } => (json!({"what": what, "staged_source": staged}), vec![]),
            Case::Lift { src, what, .. } => (json!({"what": what, "source": src}), vec![]),
        }
    }
    fn describe(&self, tier: Tier) -> Descr {
        Descr {
            rule: format!(
                "every program of the families {} with each single expression node (operand, argument, callee, condition, branch, let value, lambda, block, tuple/record member, mem/delay operand ...) quoted and spliced back on the spot in {} ways ({}), compared with the untransformed program (VM on every case, WASM on every 8th in the quick tier and on all in the thorough tier); \
                 {} stage-1 expressions (arithmetic, stateful call, mem, delay, if, tuple, record, block with let, closures reading and assigning captures, now/samplerate, builtins, pipe) x {} staging contexts (quote-then-splice, identity macro, macro-stage let spliced once / twice, f!(a) and $(f(a)), nested quote/splice, two-argument macro, macro calling a macro), each compared on VM and WASM with the expansion written out by the harness; code-building numeric recursion genpower(n), n = 0..{}, against the unrolled product; {} macro-stage numeric computations lifted with lift_f against the f64 the harness computes (bitwise); {} structured values (arrays of rows of 7 shapes: flat, nested pairs in every position, a record with a pair field) computed at the macro stage, lifted with the polymorphic `lift` and read back by a destructuring pattern, against the same array written at stage 1. non-trivial = both programs ran.",
                space(tier).describe(),
                n_modes(),
                xform::STAGE_MODES.join(", "),
                EXPRS.len(),
                CONTEXTS.len(),
                NPOW - 1,
                lifts().len(),
                n_lift_shapes()
            ),
            assumptions: vec!["expansions are text templates instantiated by the harness, not produced by the compiler".into(), "macro-stage arithmetic is assumed to be IEEE f64 like Rust's (used for the lift_f expectations)".into()],
            bounds: json!({"expressions": EXPRS.len(), "contexts": CONTEXTS.len(), "context_nesting": 2, "families": space(tier).describe(), "staged_nodes_per_program": "all", "deviations": 1}),
            shape: "E",
        }
    }
    fn vacuity(&self, _t: Tier, c: &BTreeMap<String, u64>) -> Vec<String> {
        let mut v = vec![];
        if c.get("context_lift").copied().unwrap_or(0) == 0 {
            v.push("no lift case".into());
        }
        if c.get("node_cap_exceeded").copied().unwrap_or(0) > 0 {
            v.push("a family program has more expression nodes than NODE_CAP".into());
        }
        for f in ["family_FS", "family_FC", "family_FA"] {
            if c.get(f).copied().unwrap_or(0) == 0 {
                v.push(format!("{f} empty"));
            }
        }
        v
    }
}
