//! C18 — generated Rust behaves like the VM: for every program of the space, `emit_rust` either
//! refuses with an error or produces Rust that compiles with rustc and, run with host
//! `now` = sample index and samplerate 48000, prints the VM's output samples bit for bit.
//! Programs are compiled in batches (one rustc invocation per batch, one module per program);
//! a batch that fails to build is bisected to the offending program.

use crate::engine::*;
use crate::fam::{self, Gen};
use crate::pc::*;
use crate::run::{Backend, RunErr};
use mimium_lang::{Config, ExecContext};
use serde_json::{Value, json};
use std::collections::BTreeMap;
use std::process::Command;
use std::sync::OnceLock;

pub struct C18;

const BATCH: usize = 24;
const N: usize = 8;

/// the program list of a tier (family, index into the family's own enumeration)
fn programs(tier: Tier) -> &'static Vec<(&'static str, u64, u32)> {
    static Q: OnceLock<Vec<(&'static str, u64, u32)>> = OnceLock::new();
    static T: OnceLock<Vec<(&'static str, u64, u32)>> = OnceLock::new();
    let cell = if tier == Tier::Quick { &Q } else { &T };
    cell.get_or_init(|| {
        let mut v: Vec<(&'static str, u64, u32)> = vec![];
        // FX: every operator / builtin once with (x, 0.5) and once with an edge operand, plus if and pipes
        let nfx = fam::fx_count();
        let step = if tier == Tier::Quick { 23 } else { 3 };
        let mut i = 0;
        while i < nfx {
            v.push(("FX", i, 0));
            i += step;
        }
        let (ks, kc, ka, kt) = if tier == Tier::Quick { (1, 2, 2, 1) } else { (2, 3, 3, 2) };
        for (name, k, count) in [("FS", ks, fam::fs_count(ks)), ("FC", kc, fam::fc_count(kc)), ("FA", ka, fam::fa_count(ka)), ("FT", kt, fam::ft_count(kt))] {
            let stride = 1;
            let mut i = 0;
            while i < count {
                v.push((name, i, k));
                i += stride;
            }
        }
        v
    })
}
fn decode(p: &(&'static str, u64, u32)) -> Option<Gen> {
    match p.0 {
        "FX" => fam::fx_decode(p.1),
        "FS" => fam::fs_decode(p.1, p.2),
        "FC" => fam::fc_decode(p.1, p.2),
        "FA" => fam::fa_decode(p.1, p.2),
        "FT" => fam::ft_decode(p.1, p.2),
        _ => None,
    }
}

fn scratch() -> std::path::PathBuf {
    let d = verif_root().join("target").join("c18-scratch");
    let _ = std::fs::create_dir_all(&d);
    d
}

fn module_text(i: usize, rust: &str, nin: usize, has_main: bool) -> String {
    let call_main = if has_main { "        let _ = program.call_main();\n" } else { "" };
    #[allow(non_snake_case)]
    let HOST_SR = crate::run::HOST_SAMPLE_RATE;
    format!(
        "#[allow(warnings)]\nmod p{i} {{\n{rust}\npub struct H {{ pub now: f64 }}\nimpl MimiumHost for H {{\n    fn call_ext(&mut self, name: &str, a: &[Word], _r: usize) -> Result<Vec<Word>, String> {{\n        let x = |i: usize| f64::from_bits(a.get(i).copied().unwrap_or(0));\n        let r = match name {{\n            \"sin\" => x(0).sin(), \"cos\" => x(0).cos(), \"tan\" => x(0).tan(), \"sinh\" => x(0).sinh(), \"cosh\" => x(0).cosh(), \"tanh\" => x(0).tanh(),\n            \"asin\" => x(0).asin(), \"acos\" => x(0).acos(), \"atan\" => x(0).atan(), \"atan2\" => x(0).atan2(x(1)), \"sqrt\" => x(0).sqrt(), \"abs\" => x(0).abs(),\n            \"log\" => x(0).ln(), \"exp\" => x(0).exp(), \"pow\" => x(0).powf(x(1)), \"min\" => x(0).min(x(1)), \"max\" => x(0).max(x(1)),\n            \"ceil\" => x(0).ceil(), \"floor\" => x(0).floor(), \"round\" => x(0).round(),\n            _ => return Err(format!(\"unexpected external call: {{}}\", name)),\n        }};\n        Ok(vec![r.to_bits()])\n    }}\n    fn current_time(&mut self) -> f64 {{ self.now }}\n    fn sample_rate(&mut self) -> f64 {{ {HOST_SR:?} }}\n}}\npub fn run() {{\n        let mut program = MimiumProgram::with_host(H {{ now: 0.0 }});\n{call_main}        for t in 0..{N}usize {{\n            program.host.now = t as f64;\n            let xs: [f64; 2] = [super::stream(t), super::stream(t) + 1.0];\n            let inp: Vec<Word> = xs[..{nin}].iter().map(|v| v.to_bits()).collect();\n            match program.call_dsp(&inp) {{\n                Ok(out) => {{ let s: Vec<String> = out.iter().map(|w| format!(\"{{:x}}\", w)).collect(); println!(\"S {{}}\", s.join(\" \")); }}\n                Err(e) => println!(\"E {{}}\", e.replace('\\n', \" \")),\n            }}\n        }}\n}}\n}}\n"
    )
}
fn main_text(idxs: &[usize]) -> String {
    let mut s = String::from("fn stream(t: usize) -> f64 { [1.0, 0.0][t % 2] }\nfn main() {\n    std::panic::set_hook(Box::new(|i| { let m = i.payload().downcast_ref::<String>().cloned().or_else(|| i.payload().downcast_ref::<&str>().map(|s| s.to_string())).unwrap_or_default(); println!(\"M {}\", m.replace('\\n', \" \")); }));\n");
    for i in idxs {
        s.push_str(&format!("    println!(\"# {i}\");\n    if std::panic::catch_unwind(|| p{i}::run()).is_err() {{ println!(\"P\"); }}\n"));
    }
    s.push_str("}\n");
    s
}
/// compile `mods` (program index, module text) into one binary and run it; Ok(map index -> lines) or Err(rustc stderr)
fn build_and_run(tag: &str, mods: &[(usize, String)]) -> Result<BTreeMap<usize, Vec<String>>, String> {
    let dir = scratch();
    let src = dir.join(format!("{tag}.rs"));
    let bin = dir.join(format!("{tag}.bin"));
    let mut text = String::new();
    for (_, m) in mods {
        text.push_str(m);
    }
    text.push_str(&main_text(&mods.iter().map(|m| m.0).collect::<Vec<_>>()));
    std::fs::write(&src, text).map_err(|e| format!("write: {e}"))?;
    let rustc = std::env::var("RUSTC").unwrap_or_else(|_| "rustc".into());
    let out = Command::new(rustc).arg("--edition=2024").arg("-C").arg("opt-level=0").arg("-C").arg("debuginfo=0").arg("-A").arg("warnings").arg(&src).arg("-o").arg(&bin).output().map_err(|e| format!("rustc spawn: {e}"))?;
    let _ = std::fs::remove_file(&src);
    if !out.status.success() {
        let _ = std::fs::remove_file(&bin);
        return Err(String::from_utf8_lossy(&out.stderr).lines().filter(|l| l.starts_with("error")).take(4).collect::<Vec<_>>().join(" | "));
    }
    let run = Command::new(&bin).output().map_err(|e| format!("run: {e}"));
    let _ = std::fs::remove_file(&bin);
    let run = run?;
    let mut map: BTreeMap<usize, Vec<String>> = BTreeMap::new();
    let mut cur = usize::MAX;
    for l in String::from_utf8_lossy(&run.stdout).lines() {
        if let Some(r) = l.strip_prefix("# ") {
            cur = r.trim().parse().unwrap_or(usize::MAX);
            map.entry(cur).or_default();
        } else if cur != usize::MAX {
            map.entry(cur).or_default().push(l.to_string());
        }
    }
    if !run.status.success() {
        map.entry(cur).or_default().push(format!("X process died: {}", run.status));
    }
    Ok(map)
}

impl Prop for C18 {
    fn id(&self) -> &'static str {
        "C18"
    }
    fn n_cases(&self, tier: Tier) -> u64 {
        programs(tier).len().div_ceil(BATCH) as u64
    }
    fn chunk(&self, _t: Tier) -> u64 {
        1
    }
    fn recycle_after(&self) -> u64 {
        8
    }
    fn case_cap_ms(&self) -> u64 {
        600_000
    }
    fn run_case(&self, tier: Tier, idx: u64) -> CaseOut {
        let list = programs(tier);
        let lo = idx as usize * BATCH;
        let hi = (lo + BATCH).min(list.len());
        let mut fails: Vec<Fail> = vec![];
        let mut mods: Vec<(usize, String)> = vec![];
        let mut expect: BTreeMap<usize, (Vec<Vec<f64>>, String, Vec<String>)> = BTreeMap::new();
        let mut counters: BTreeMap<String, u64> = BTreeMap::new();
        let mut tags_all: Vec<String> = vec![];
        let mut reprs = vec![];
        for pi in lo..hi {
            let Some(g) = decode(&list[pi]) else {
                *counters.entry("invalid_index".into()).or_default() += 1;
                continue;
            };
            let src = g.source();
            // VM reference run (programs the VM does not run are not C18's subject)
            let vm = match run_backend(Backend::Vm, &src, g.family == "FT", g.inputs, 0, N, false) {
                Ok(fr) => fr.out,
                Err(RunErr::Compile(_)) => {
                    *counters.entry("vm_rejects".into()).or_default() += 1;
                    continue;
                }
                Err(RunErr::Crash(_)) => {
                    *counters.entry("vm_crashes".into()).or_default() += 1;
                    continue;
                }
            };
            let emitted = catch(|| {
                let mut ctx = ExecContext::new([].into_iter(), Some("/verif-input.mmm".into()), Config::default());
                ctx.prepare_compiler();
                ctx.get_compiler().unwrap().emit_rust(&src).map(|o| o.source).map_err(|e| crate::run::errs_to_strings(&e))
            });
            match emitted {
                Err(m) => {
                    fails.push(Fail { clause: "emit_rust_panics".into(), detail: format!("{:?}: {m}", g.ops) });
                    tags_all.extend(g.tags());
                }
                Ok(Err(_)) => {
                    *counters.entry("refused".into()).or_default() += 1;
                }
                Ok(Ok(rust)) => {
                    *counters.entry("emitted".into()).or_default() += 1;
                    let has_main = rust.contains("pub fn call_main");
                    mods.push((pi, module_text(pi, &rust, g.inputs, has_main)));
                    expect.insert(pi, (vm, src.clone(), g.tags()));
                    if reprs.len() < 2 {
                        reprs.push(json!({"family": g.family, "ops": g.ops, "source": src}));
                    }
                }
            }
        }
        let tag = format!("b{}_{}", std::process::id(), idx);
        let results = match build_and_run(&tag, &mods) {
            Ok(m) => m,
            Err(_) => {
                // bisect: build every module on its own
                let mut m = BTreeMap::new();
                for (pi, text) in &mods {
                    match build_and_run(&format!("{tag}_{pi}"), &[(*pi, text.clone())]) {
                        Ok(r) => m.extend(r),
                        Err(e) => {
                            let (_, src, tags) = &expect[pi];
                            fails.push(Fail { clause: "generated_rust_does_not_compile".into(), detail: format!("{e} ;; program: {}", src.replace('\n', " ")) });
                            tags_all.extend(tags.iter().cloned());
                            m.insert(*pi, vec!["BUILD FAILED".to_string()]);
                        }
                    }
                }
                m
            }
        };
        let mut compared = 0u64;
        for (pi, (vm, src, tags)) in &expect {
            let Some(lines) = results.get(pi) else {
                fails.push(Fail { clause: "harness_panic".into(), detail: format!("no output section for program {pi}") });
                continue;
            };
            if lines.first().map(|l| l == "BUILD FAILED").unwrap_or(false) {
                continue;
            }
            compared += 1;
            let got: Vec<Option<Vec<u64>>> = lines.iter().map(|l| l.strip_prefix("S ").map(|r| r.split_whitespace().filter_map(|w| u64::from_str_radix(w, 16).ok()).collect())).collect();
            let mut bad = None;
            if lines.iter().any(|l| l.starts_with('P') || l.starts_with('X')) {
                bad = Some(("generated_rust_panics", lines.join(" / ")));
            } else if lines.iter().any(|l| l.starts_with("E ")) {
                bad = Some(("generated_rust_returns_error", lines.iter().find(|l| l.starts_with("E ")).cloned().unwrap_or_default()));
            } else {
                for t in 0..N {
                    let v: Vec<u64> = vm.get(t).map(|o| o.iter().map(|x| x.to_bits()).collect()).unwrap_or_default();
                    let r = got.get(t).cloned().flatten().unwrap_or_default();
                    let same = v.len() == r.len() && v.iter().zip(r.iter()).all(|(a, b)| a == b || (f64::from_bits(*a).is_nan() && f64::from_bits(*b).is_nan()));
                    if !same {
                        bad = Some(("generated_rust_output_differs_from_vm", format!("sample {t}: vm {:?} rust {:?}", v.iter().map(|w| f64::from_bits(*w)).collect::<Vec<_>>(), r.iter().map(|w| f64::from_bits(*w)).collect::<Vec<_>>())));
                        break;
                    }
                }
            }
            if let Some((clause, detail)) = bad {
                fails.push(Fail { clause: clause.into(), detail: format!("{detail} ;; program: {}", src.replace('\n', " ")) });
                tags_all.extend(tags.iter().cloned());
            }
        }
        counters.insert("programs_compared".into(), compared);
        tags_all.sort();
        tags_all.dedup();
        CaseOut {
            key: idx,
            nontrivial: compared > 0,
            outcome: if fails.is_empty() { "batch_agrees".into() } else { "batch_has_failures".into() },
            fails,
            tags: tags_all,
            repr: json!({"batch": [lo, hi], "examples": reprs}),
            counters: counters.into_iter().collect(),
        }
    }
    fn describe_case(&self, tier: Tier, idx: u64) -> (Value, Vec<String>) {
        let lo = idx as usize * BATCH;
        (json!({"batch": [lo, (lo + BATCH).min(programs(tier).len())]}), vec![])
    }
    fn min_outcomes(&self) -> usize {
        1
    }
    fn describe(&self, tier: Tier) -> Descr {
        Descr {
            rule: format!(
                "{} programs: FX expressions thinned to every {}-th index (so that every operator and builtin occurs), FS / FC / FA / FT operation sequences up to the tier's bound; each program the VM runs is passed to emit_rust; emitted sources are compiled {BATCH} per rustc invocation (one module each, own host with now = sample index, samplerate 48000) and run for {N} samples; refusal with an error is fine, a build failure is bisected to the program, outputs must equal the VM's bit for bit (NaNs identified). non-trivial batch = at least one program compared.",
                programs(tier).len(),
                if tier == Tier::Quick { 23 } else { 3 }
            ),
            assumptions: vec!["the generated program's host (MimiumHost::call_ext) supplies the math builtins the transpiler delegates to it (tan, sinh, cosh, tanh, atan2, ...) with Rust's f64 methods, as the VM does".into(), "rustc cost keeps this bound an order of magnitude below the other backends' (stated in DESIGN as the weakest bound of the set)".into(), "programs the VM itself rejects or crashes on are not compared".into()],
            bounds: json!({"programs": programs(tier).len(), "batch": BATCH, "samples": N}),
            shape: "E",
        }
    }
    fn vacuity(&self, _t: Tier, c: &BTreeMap<String, u64>) -> Vec<String> {
        if c.get("programs_compared").copied().unwrap_or(0) < 20 { vec![format!("only {} programs compared", c.get("programs_compared").copied().unwrap_or(0))] } else { vec![] }
    }
}
