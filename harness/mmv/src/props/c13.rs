//! C13 — tokens and syntax tree are lossless over the source text.
//! Shape E: every string over a 30-character alphabet up to length L, every
//! concatenation of up to 3 token spellings, every byte-truncation of every corpus file.

use crate::corpus::corpus;
use crate::engine::*;
use mimium_lang::compiler::parser::{self, GreenNodeArena, GreenNodeId, TokenKind, green::GreenNode};
use serde_json::{Value, json};
use std::collections::BTreeMap;
use std::sync::OnceLock;

pub const ALPHA: [&str; 30] = [
    "a", "1", "0", ".", "\"", "/", "*", "\n", "\r", " ", "\t", "-", ">", "<", "=", "!", "|", "&", ":", ";", "_", "(", ")", "{",
    "}", "$", "#", "@", "é", "∑",
];

/// one spelling per token kind the tokenizer can emit (+ a few extra spellings)
pub const SPELLINGS: [&str; 72] = [
    "x", "é", "fn", "macro", "self", "now", "samplerate", "let", "letrec", "if", "else", "match", "float", "int", "string",
    "struct", "include", "stage", "main", "mod", "use", "pub", "type", "alias", "rec", "_", "1", "1.5", "\"s\"", "+", "-", "*",
    "/", "==", "!=", "<", "<=", ">", ">=", "%", "^", "@", "&&", "||", "|>", "||>", "!", ",", ".", "..", ":", "::", ";", "=", "(",
    ")", "[", "]", "{", "}", "|", "`", "$", "->", "<-", "=>", "#", "// c\n", "/* c */", "\n", "?", "\"",
];

struct Sizes {
    la: u32,
    na: u64,
    lb: u32,
    nb: u64,
    /// corpus truncations: (file index, prefix byte length); cumulative starts
    files: Vec<usize>,
    cum: Vec<u64>,
    nc: u64,
}

fn pow_sum(base: u64, l: u32) -> u64 {
    (1..=l).map(|k| base.pow(k)).sum::<u64>() + 1 // + empty string
}

fn sizes(tier: Tier) -> &'static Sizes {
    static Q: OnceLock<Sizes> = OnceLock::new();
    static T: OnceLock<Sizes> = OnceLock::new();
    let (cell, la, lb, nfiles) = match tier {
        Tier::Quick => (&Q, 4, 3, 120usize),
        Tier::Thorough => (&T, 5, 3, usize::MAX),
    };
    cell.get_or_init(|| {
        let c = corpus();
        let files: Vec<usize> = (0..c.len().min(nfiles)).collect();
        let mut cum = vec![0u64];
        for &f in &files {
            let n = c[f].text.len() as u64 + 1;
            cum.push(cum.last().unwrap() + n);
        }
        Sizes {
            la,
            na: pow_sum(ALPHA.len() as u64, la),
            lb,
            nb: pow_sum(SPELLINGS.len() as u64, lb),
            nc: *cum.last().unwrap(),
            files,
            cum,
        }
    })
}

/// index -> string: all strings of length 0..=l over `alpha`, shortest first
fn nth_string(alpha: &[&str], mut idx: u64, l: u32) -> String {
    if idx == 0 {
        return String::new();
    }
    idx -= 1;
    let b = alpha.len() as u64;
    for k in 1..=l {
        let n = b.pow(k);
        if idx < n {
            let mut s = String::new();
            let mut digits = vec![];
            let mut x = idx;
            for _ in 0..k {
                digits.push((x % b) as usize);
                x /= b;
            }
            for d in digits.iter().rev() {
                s.push_str(alpha[*d]);
            }
            return s;
        }
        idx -= n;
    }
    unreachable!()
}

pub fn case_text(tier: Tier, idx: u64) -> (String, &'static str, String) {
    let s = sizes(tier);
    if idx < s.na {
        (nth_string(&ALPHA, idx, s.la), "chars", String::new())
    } else if idx < s.na + s.nb {
        (nth_string(&SPELLINGS, idx - s.na, s.lb), "tokens_concat", String::new())
    } else {
        let k = idx - s.na - s.nb;
        let fi = s.cum.partition_point(|&c| c <= k) - 1;
        let f = &corpus()[s.files[fi]];
        let cut = (k - s.cum[fi]) as usize;
        let bytes = &f.text.as_bytes()[..cut];
        (
            String::from_utf8_lossy(bytes).into_owned(),
            "corpus_truncation",
            format!("{}@{}", f.path.display(), cut),
        )
    }
}

fn leaves(arena: &GreenNodeArena, id: GreenNodeId, out: &mut Vec<usize>) {
    match arena.get(id) {
        GreenNode::Token { token_index, .. } => out.push(*token_index),
        GreenNode::Internal { children, .. } => {
            for c in children {
                leaves(arena, *c, out);
            }
        }
    }
}

pub fn check_text(src: &str, fails: &mut Vec<Fail>, tags: &mut Vec<String>) -> String {
    let mut f = |c: &str, d: String| {
        fails.push(Fail {
            clause: c.into(),
            detail: d,
        })
    };
    let tokens = match catch(|| parser::tokenize(src)) {
        Ok(t) => t,
        Err(m) => {
            f("tokenize_panic", m);
            return "panic".into();
        }
    };
    // --- tiling
    let mut pos = 0usize;
    let mut tiling_ok = true;
    for (i, t) in tokens.iter().enumerate() {
        if t.start != pos {
            f("token_not_contiguous", format!("token {i} {:?} starts at {} expected {}", t.kind, t.start, pos));
            tiling_ok = false;
            break;
        }
        if !src.is_char_boundary(t.start) || t.end() > src.len() || !src.is_char_boundary(t.end()) {
            f("token_not_on_char_boundary", format!("token {i} {:?} {}..{}", t.kind, t.start, t.end()));
            tiling_ok = false;
            break;
        }
        if t.kind == TokenKind::Eof && i + 1 != tokens.len() {
            f("eof_not_last", format!("token {i}"));
            tiling_ok = false;
        }
        if t.length == 0 && t.kind != TokenKind::Eof {
            f("empty_token", format!("token {i} {:?}", t.kind));
        }
        pos = t.end();
    }
    match tokens.last() {
        Some(t) if t.kind == TokenKind::Eof && t.start == src.len() && t.length == 0 => {}
        other => {
            f("no_eof_at_end", format!("last token {other:?}, len {}", src.len()));
            tiling_ok = false;
        }
    }
    if tiling_ok && pos != src.len() {
        f("tokens_do_not_cover_input", format!("covered {pos} of {}", src.len()));
    }
    if tiling_ok {
        let cat: String = tokens.iter().map(|t| t.text(src)).collect();
        if cat != src {
            f("concat_differs", String::new());
        }
    }
    // --- preparse + CST
    let pre = match catch(|| parser::preparse(&tokens)) {
        Ok(p) => p,
        Err(m) => {
            f("preparse_panic", m);
            return "panic".into();
        }
    };
    let expect_nontrivia: Vec<usize> = tokens
        .iter()
        .enumerate()
        .filter(|(_, t)| !t.is_trivia() && t.kind != TokenKind::Eof)
        .map(|(i, _)| i)
        .collect();
    if pre.token_indices != expect_nontrivia {
        f("preparse_token_indices", format!("{:?} vs {:?}", pre.token_indices, expect_nontrivia));
    }
    let toks2 = tokens.clone();
    match catch(|| parser::parse_cst(toks2, &pre)) {
        Err(m) => {
            f("parse_cst_panic", m);
        }
        Ok((root, arena, _toks, _errs)) => {
            let mut lv = vec![];
            leaves(&arena, root, &mut lv);
            if lv != pre.token_indices {
                // classify
                let mut sorted = lv.clone();
                sorted.sort();
                let dup = sorted.windows(2).any(|w| w[0] == w[1]);
                let clause = if dup {
                    "cst_token_duplicated"
                } else if lv.len() < pre.token_indices.len() {
                    "cst_token_missing"
                } else {
                    "cst_token_order"
                };
                f(clause, format!("leaves {:?} vs non-trivia {:?}", lv, pre.token_indices));
            }
        }
    }
    // --- trivia attachment
    let trivia: Vec<usize> = tokens.iter().enumerate().filter(|(_, t)| t.is_trivia()).map(|(i, _)| i).collect();
    let mut seen: BTreeMap<usize, u32> = BTreeMap::new();
    let nt = &pre.token_indices;
    for (k, list) in &pre.leading_trivia_map {
        for &ti in list {
            *seen.entry(ti).or_default() += 1;
            let hi = nt.get(*k).copied();
            let lo = if *k == 0 { None } else { nt.get(*k - 1).copied() };
            let ok = hi.map(|h| ti < h).unwrap_or(false) && lo.map(|l| ti > l).unwrap_or(true);
            if !ok {
                f("leading_trivia_not_adjacent", format!("trivia token {ti} attached before non-trivia #{k}"));
            }
        }
    }
    for (k, list) in &pre.trailing_trivia_map {
        for &ti in list {
            *seen.entry(ti).or_default() += 1;
            let lo = nt.get(*k).copied();
            let hi = nt.get(*k + 1).copied();
            let ok = lo.map(|l| ti > l).unwrap_or(false) && hi.map(|h| ti < h).unwrap_or(true);
            if !ok {
                f("trailing_trivia_not_adjacent", format!("trivia token {ti} attached after non-trivia #{k}"));
            }
        }
    }
    let first_nt = nt.first().copied();
    for &ti in &trivia {
        match seen.get(&ti).copied().unwrap_or(0) {
            1 => {}
            0 => {
                if nt.is_empty() {
                    // no token to attach to: the statement speaks of "a neighbouring token"; nothing to check
                    continue;
                }
                if first_nt.map(|f| ti < f).unwrap_or(false) {
                    f("trivia_dropped_before_first_token", format!("trivia token {ti} ({:?}) in no trivia list", tokens[ti].kind));
                } else {
                    f("trivia_dropped", format!("trivia token {ti} ({:?}) in no trivia list", tokens[ti].kind));
                }
            }
            n => f("trivia_attached_twice", format!("trivia token {ti} in {n} lists")),
        }
    }
    if let Some(fnt) = first_nt {
        // structural tag for the known finding: trivia containing a line break precedes the first token
        if tokens[..fnt].iter().any(|t| t.kind == TokenKind::LineBreak) {
            tags.push("linebreak_before_first_token".into());
        }
    }
    format!("tok={}:nt={}:tr={}", tokens.len().min(6), nt.len().min(4), trivia.len().min(3))
}

pub struct C13;
impl Prop for C13 {
    fn id(&self) -> &'static str {
        "C13"
    }
    fn n_cases(&self, tier: Tier) -> u64 {
        let s = sizes(tier);
        s.na + s.nb + s.nc
    }
    fn chunk(&self, _t: Tier) -> u64 {
        5000
    }
    fn recycle_after(&self) -> u64 {
        2_000_000
    }
    fn run_case(&self, tier: Tier, idx: u64) -> CaseOut {
        let (text, fam, origin) = case_text(tier, idx);
        let mut fails = vec![];
        let mut tags = vec![];
        let outcome = check_text(&text, &mut fails, &mut tags);
        CaseOut {
            key: fnv(text.as_bytes()),
            nontrivial: !text.is_empty(),
            outcome,
            fails,
            tags,
            repr: json!({"family": fam, "text": text.chars().take(200).collect::<String>(), "origin": origin, "bytes": text.len()}),
            counters: vec![(format!("family_{fam}"), 1)],
        }
    }
    fn describe_case(&self, tier: Tier, idx: u64) -> (Value, Vec<String>) {
        let (text, fam, origin) = case_text(tier, idx);
        (json!({"family": fam, "text": text.chars().take(200).collect::<String>(), "origin": origin}), vec![])
    }
    fn describe(&self, tier: Tier) -> Descr {
        let s = sizes(tier);
        Descr {
            rule: format!(
                "(a) every string of 0..={} characters over the 30-character alphabet {:?} ({} strings, index = mixed-radix numeral, shortest first); \
                 (b) every concatenation without separators of 0..={} token spellings from the 72-spelling list ({}); \
                 (c) every byte-prefix of each of the {} smallest-first corpus files ({} prefixes; prefixes that cut a UTF-8 sequence are lossy-decoded). \
                 distinct = by FNV-64 of the text; non-trivial = non-empty text.",
                s.la, ALPHA, s.na, s.lb, s.nb, s.files.len(), s.nc
            ),
            assumptions: vec![
                "strings longer than the bound over other characters are covered only through the corpus truncations".into(),
                "when the text has no non-trivia token at all, trivia has no neighbouring token to attach to and the attachment clause is not evaluated".into(),
            ],
            bounds: json!({"chars_len": s.la, "token_concat_len": s.lb, "corpus_files": s.files.len()}),
            shape: "E",
        }
    }
}
