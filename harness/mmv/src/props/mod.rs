pub mod c01;
pub mod c02;
pub mod c03;
pub mod c04;
pub mod c05;
pub mod c06;
pub mod c07;
pub mod c08;
pub mod c09;
pub mod c10;
pub mod c11;
pub mod c12;
pub mod c13;
pub mod c14;
pub mod c15;
pub mod c16;
pub mod c17;
pub mod c18;
pub mod c19;
pub mod c20;

use crate::engine::Prop;
use std::sync::Arc;

pub fn lookup(id: &str) -> Option<Arc<dyn Prop>> {
    Some(match id {
        "C01" => Arc::new(c01::C01),
        "C02" => Arc::new(c02::C02),
        "C05" => Arc::new(c05::C05),
        "C03" => Arc::new(c03::C03),
        "C04" => Arc::new(c04::C04),
        "C06" => Arc::new(c06::C06),
        "C07" => Arc::new(c07::C07),
        "C08" => Arc::new(c08::C08),
        "C09" => Arc::new(c09::C09),
        "C10" => Arc::new(c10::C10),
        "C11" => Arc::new(c11::C11),
        "C12" => Arc::new(c12::C12),
        "C13" => Arc::new(c13::C13),
        "C14" => Arc::new(c14::C14),
        "C15" => Arc::new(c15::C15),
        "C16" => Arc::new(c16::C16),
        "C17" => Arc::new(c17::C17),
        "C18" => Arc::new(c18::C18),
        "C19" => Arc::new(c19::C19),
        "C20" => Arc::new(c20::C20),
        _ => return None,
    })
}
