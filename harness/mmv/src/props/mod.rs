pub mod c08;

use crate::engine::Prop;
use std::sync::Arc;

pub fn lookup(id: &str) -> Option<Arc<dyn Prop>> {
    Some(match id {
        "C08" => Arc::new(c08::C08),
        _ => return None,
    })
}
