//! C03 — programs accepted by the type checker compile on both backends (or are rejected with a
//! diagnostic) and run their global initialisation and dsp calls without panic, abort, hang or an
//! access outside the runtime's storage (bounds hooks), yielding the declared number of words.
//! Space: every program of the Σ families plus every deviation-1 type-changing mutant of it.

use crate::engine::*;
use crate::fam::{MUT_MAX, mutate};
use crate::lang;
use crate::pc::*;
use crate::run::{Backend, Run, RunErr};
use serde_json::{Value, json};
use std::collections::BTreeMap;
use std::sync::OnceLock;

pub struct C03;

fn space(tier: Tier) -> &'static Space {
    static Q: OnceLock<Space> = OnceLock::new();
    static T: OnceLock<Space> = OnceLock::new();
    match tier {
        Tier::Quick => Q.get_or_init(|| Space::new(&[("FS", 1), ("FC", 2), ("FA", 2), ("FT", 1), ("FB", 2)])),
        Tier::Thorough => T.get_or_init(|| Space::new(&[("FS", 2), ("FC", 3), ("FA", 3), ("FT", 2), ("FB", 3)])),
    }
}
fn samples(tier: Tier) -> usize {
    match tier {
        Tier::Quick => 8,
        Tier::Thorough => 16,
    }
}

/// stable signature of a crash: label plus the message with numbers abstracted
fn sig(m: &str) -> String {
    let m = m.strip_prefix("panic: ").unwrap_or(m);
    let m = m.strip_prefix("internal error: entered unreachable code: ").unwrap_or(m);
    let mut o = String::new();
    let mut last_digit = false;
    for ch in m.chars() {
        if ch.is_ascii_digit() {
            if !last_digit {
                o.push('N');
            }
            last_digit = true;
        } else {
            last_digit = false;
            o.push(if ch.is_whitespace() { ' ' } else { ch });
        }
        if o.len() >= 48 {
            break;
        }
    }
    format!("{}:{}", crash_label(m), o.trim())
}

fn build(tier: Tier, idx: u64) -> Option<(String, Vec<String>, Value, &'static str, bool, usize)> {
    let (base, m) = (idx / MUT_MAX, idx % MUT_MAX);
    let (_, g) = space(tier).get(base);
    let g = g?;
    if g.ft.is_some() || g.text.is_some() {
        if m != 0 {
            return None;
        }
        let src = g.source();
        return Some((src.clone(), g.tags(), gen_repr(&g, &src), g.family, g.ft.is_some(), if g.ft.is_some() { 0 } else { g.inputs }));
    }
    if m != 0 && g.tags().iter().any(|t| t == "local_letrec") {
        // no near-miss mutants of programs with a recursive local function: a mutated loop bound or step makes the
        // recursion unbounded, and a program that recurses for ever is not a safety failure of the implementation
        return None;
    }
    let (p, what) = mutate(&g.prog, m)?;
    let src = lang::print(&p);
    let mut tags = g.tags();
    tags.push(if m == 0 { "unmutated".to_string() } else { "mutant".to_string() });
    if let Some(i) = crate::fam::MUT_MENU.iter().position(|t| what.ends_with(&format!("-> {t}"))) {
        tags.push(format!("mut_repl_{i}"));
    } else if m != 0 {
        tags.push(format!("mut_whole:{what}"));
    }
    if what.contains("global scope") {
        tags.push("global_stateful_call".into());
    }
    let mut repr = gen_repr(&g, &src);
    repr["mutation"] = json!(what);
    Some((src, tags, repr, g.family, false, g.inputs))
}

impl Prop for C03 {
    fn id(&self) -> &'static str {
        "C03"
    }
    fn n_cases(&self, tier: Tier) -> u64 {
        space(tier).n() * MUT_MAX
    }
    fn chunk(&self, _t: Tier) -> u64 {
        500
    }
    fn recycle_after(&self) -> u64 {
        20_000
    }
    fn case_cap_ms(&self) -> u64 {
        20_000
    }
    fn run_case(&self, tier: Tier, idx: u64) -> CaseOut {
        let Some((src, tags, repr, family, sched, nin)) = build(tier, idx) else {
            return CaseOut { key: idx, nontrivial: false, outcome: "invalid_index".into(), ..Default::default() };
        };
        let n = samples(tier);
        let mut fails = vec![];
        let mut label = String::new();
        let mut ran = false;
        let inputs = inputs_for(0, nin);
        for b in [Backend::Vm, Backend::Wasm] {
            match Run::start(b, &src, sched) {
                Err(RunErr::Compile(es)) => {
                    if es.is_empty() {
                        fails.push(Fail { clause: format!("{}_rejects_without_diagnostic", b.name()), detail: String::new() });
                    }
                    label.push_str("R");
                    // rejected with a diagnostic: fine. (the other backend is still tried: acceptance must agree -> C01)
                }
                Err(RunErr::Crash(m)) => {
                    label.push_str("P");
                    fails.push(Fail { clause: format!("{}_compile_or_init:{}", b.name(), sig(&m)), detail: m });
                }
                Ok(mut r) => {
                    label.push_str("A");
                    let declared = r.io().map(|io| io.output as i64);
                    for t in 0..n {
                        match r.step_rc(t as u64, &inputs(t)) {
                            Ok((rc, out)) => {
                                ran = true;
                                if let Some(d) = declared {
                                    if b == Backend::Vm && d > 0 && rc != d {
                                        fails.push(Fail { clause: "vm_dsp_returned_wrong_number_of_words".into(), detail: format!("sample {t}: dsp returned {rc} words, its type declares {d}") });
                                        break;
                                    }
                                    if out.len() as i64 != d {
                                        fails.push(Fail { clause: format!("{}_output_word_count", b.name()), detail: format!("sample {t}: {} output words, declared {d}", out.len()) });
                                        break;
                                    }
                                }
                            }
                            Err(RunErr::Crash(m)) => {
                                fails.push(Fail { clause: format!("{}_run:{}", b.name(), sig(&m)), detail: format!("sample {t}: {m}") });
                                break;
                            }
                            Err(_) => break,
                        }
                    }
                }
            }
        }
        fails.dedup_by(|a, b| a.clause == b.clause);
        CaseOut { key: fnv(src.as_bytes()), nontrivial: ran, outcome: label, fails, tags, repr, counters: vec![(format!("family_{family}"), 1)] }
    }
    fn describe_case(&self, tier: Tier, idx: u64) -> (Value, Vec<String>) {
        match build(tier, idx) {
            Some((_, tags, repr, ..)) => (repr, tags),
            None => (json!({"idx": idx}), vec![]),
        }
    }
    fn crash_clause(&self) -> &'static str {
        "process_abort_signal_or_hang"
    }
    fn describe(&self, tier: Tier) -> Descr {
        Descr {
            rule: format!(
                "every program of the families {} and, for each of them, every deviation-1 near-miss mutant: each atom of dsp's body (first 16) replaced by each of {} type-changing texts (pair, lambda, string, block, array, self, now, nested tuple, record), plus whole-program mutants (stateful call at global scope, dsp returning a lambda / unit, delay with non-literal / zero size, delay time beyond its size or negative, tuple-valued self in dsp). Each text is compiled on VM and WASM in a crash-isolated worker; a panic, abort, signal, hang or bounds-hook report during compilation, global initialisation or {} dsp calls is a failure, as is a word count different from the declared one; rejection with a diagnostic is fine. outcome label = per backend A(ccepted)/R(ejected)/P(anic). non-trivial = at least one backend ran dsp.",
                space(tier).describe(),
                crate::fam::MUT_MENU.len(),
                samples(tier)
            ),
            assumptions: vec![
                "out-of-bounds accesses of the VM's unchecked paths are turned into panics by the cfg(mimium_verif) bounds hooks (state storage, globals, upvalues, closure handles, delay sizes)".into(),
                "acceptance by the type checker is approximated by acceptance of the compile entry point: a text rejected with diagnostics is never a failure".into(),
            ],
            bounds: json!({"families": space(tier).describe(), "mutants_per_program_max": MUT_MAX, "samples": samples(tier)}),
            shape: "E",
        }
    }
    fn min_outcomes(&self) -> usize {
        2
    }
    fn vacuity(&self, _t: Tier, c: &BTreeMap<String, u64>) -> Vec<String> {
        ["family_FS", "family_FC", "family_FA", "family_FT"].iter().filter(|k| c.get(**k).copied().unwrap_or(0) == 0).map(|k| format!("{k} empty")).collect()
    }
}
