//! C15 — compilation is deterministic.  Shape S: the system is one process with its process-global
//! interner / counters; the event is Compile(P_i).  Every history of <= d compilations is executed
//! and the observation of the last compilation (bytecode listing, WASM bytes, MIR, state layout,
//! outputs) must equal the observation of the same program in a fresh process — whatever was
//! compiled before (including everything the worker compiled for earlier cases).

use crate::engine::*;
use crate::pc::*;
use crate::run::{Backend, full_run};
use mimium_lang::{Config, ExecContext};
use serde_json::{Value, json};
use std::collections::BTreeMap;
use std::sync::{Mutex, OnceLock};

pub struct C15;

pub const PROGRAMS: [(&str, &str); 20] = [
    ("counter", "fn cnt(p) {\n  self + p\n}\nfn dsp(x) {\n  cnt(x) + cnt(1.0)\n}\n"),
    ("closures", "fn mk(n) {\n  |y| y + n\n}\nfn dsp(x) {\n  let a = mk(1.0)\n  let b = |q| q * 2.0\n  let c = | | 3.0\n  a(x) + b(x) + c()\n}\n"),
    ("enum", "type Dir = Up | Down | Left(float)\nfn f(d: Dir) {\n  match d {\n    Up => 1.0,\n    Down => 2.0,\n    Left(v) => v\n  }\n}\nfn dsp(x) {\n  f(Up) + f(Down) + f(Left(x))\n}\n"),
    ("records", "type alias Pt = {px:float, py:float}\nfn norm(p: Pt) {\n  p.px * p.px + p.py * p.py\n}\nfn dsp(x) {\n  let p = {px = x, py = 2.0}\n  let q = {p <- px = 3.0}\n  norm(p) + norm(q)\n}\n"),
    ("modules", "mod a {\n  pub fn f(x) {\n    x + 1.0\n  }\n  pub mod b {\n    pub fn g(x) {\n      x * 2.0\n    }\n  }\n}\nmod c {\n  pub use a::f\n}\nuse a::b::*\nfn dsp(x) {\n  a::f(x) + g(x) + c::f(x)\n}\n"),
    ("macros", "#stage(macro)\nfn dbl(a) {\n  `{ $a * 2.0 }\n}\nfn genpower(n) {\n  letrec aux = |n1, v| {\n    if (n1 > 0.0) {\n      `{ $(aux(n1 - 1.0, v)) * $v }\n    } else {\n      `1.0\n    }\n  }\n  `{ |v| $(aux(n, `v)) }\n}\n#stage(main)\nfn dsp(x) {\n  dbl!(`x) + genpower!(3.0)(x) + $((0.1 + 0.2) |> lift_f)\n}\n"),
    ("many_functions", "fn f1(x) {\n  x + 1.0\n}\nfn f2(x) {\n  sin(x) + cos(x)\n}\nfn f3(x) {\n  sqrt(abs(x)) + log(x + 2.0)\n}\nfn f4(x) {\n  mem(x) + delay(4.0, x, 2.0)\n}\nfn f5(x) {\n  min(x, 1.0) + max(x, 0.0) + atan2(x, 1.0)\n}\nfn dsp(x) {\n  f1(x) + f2(x) + f3(x) + f4(x) + f5(x)\n}\n"),
    ("rec_list", "type rec List = Nil | Cons(float, List)\nfn sum(l: List) -> float {\n  match l {\n    Nil => 0.0,\n    Cons(h, t) => h + sum(t)\n  }\n}\nfn dsp(x: float) -> float {\n  sum(Cons(x, Cons(2.0, Nil)))\n}\n"),
    ("scheduler", "let c0 = 0.0\nfn task0() {\n  c0 = c0 + 1.0\n  task0@(now + 2.0)\n}\ntask0@1.0\nfn dsp(x) {\n  c0 + x\n}\n"),
    ("record_fields_in_reverse_order", "fn dsp(x) {\n  let r = {zeta = 1.0, omega = x, alpha = 2.0}\n  r.zeta + r.alpha * 10.0 + r.omega * 100.0\n}\n"),
    ("record_update_two_stateful_fields", "fn cnt(p) {\n  self + p\n}\nfn dsp(x) {\n  let r = {alpha = 0.0, omega = 0.0, zeta = 0.0}\n  let r2 = {r <- zeta = delay(4.0, cnt(1.0), 2.0), alpha = cnt(10.0), omega = mem(x)}\n  r2.alpha + r2.zeta * 100.0 + r2.omega * 10000.0\n}\n"),
    // the same short names bound to different things in different programs (anything remembered by name across compilations shows here)
    ("alias_in_module_left", "mod left {\n  pub type alias Pair = (float, float)\n  pub fn mk(x: float) -> Pair {\n    (x, x + 1.0)\n  }\n}\nfn dsp(x) {\n  let (a, b) = left::mk(x)\n  a + b\n}\n"),
    ("alias_in_module_right", "mod right {\n  pub type alias Pair = (float, float, float)\n  pub fn total(p: Pair) -> float {\n    p.0 + p.1 + p.2\n  }\n}\nfn dsp(x) {\n  right::total((x, 2.0, 3.0))\n}\n"),
    ("enum_same_names_other_order", "type Dir = Left(float) | Down | Up\nfn f(d: Dir) {\n  match d {\n    Up => 10.0,\n    Down => 20.0,\n    Left(v) => v * 2.0\n  }\n}\nfn dsp(x) {\n  f(Up) + f(Down) + f(Left(x))\n}\n"),
    // a value of a recursive sum type bound to a local (released at the end of its scope)
    ("rec_list_local", "type rec List = Nil | Cons(float, List)\nfn sum(l: List) -> float {\n  match l {\n    Nil => 0.0,\n    Cons(h, t) => h + sum(t)\n  }\n}\nfn dsp(x: float) -> float {\n  let mylist = Cons(x, Cons(2.0, Cons(3.0, Nil)))\n  let other = Cons(1.0, Nil)\n  sum(mylist) + sum(other)\n}\n"),
    // destructuring patterns inside quoted code (the staging pass names its temporaries); one binds a function
    ("staged_record_pattern", "#stage(macro)\nfn mk() {\n  `{\n    let {f = g, a = b} = {f = |x| x + 1.0, a = 1.0}\n    g(b)\n  }\n}\n#stage(main)\nfn dsp(x) {\n  mk!() + x\n}\n"),
    ("staged_nested_tuple_pattern", "#stage(macro)\nfn mk(e) {\n  `{\n    let ((p, q), (r, s)) = (($e, |v| v * 2.0), (3.0, |v| v + 4.0))\n    q(p) + s(r)\n  }\n}\n#stage(main)\nfn dsp(x) {\n  mk!(`x) + mk!(`1.0)\n}\n"),
    ("tuples_if", "fn sw(t:(float,float)) {\n  (t.1, t.0)\n}\nfn dsp(x) {\n  let t = if (x) { (1.0, x) } else { (x, 2.0) }\n  let (p, q) = sw(t)\n  (p, q, now)\n}\n"),
    // two modules declare a type alias of the same short name with different shapes and mention it unqualified (the
    // candidates of the mangled-suffix fallback come out of hash maps)
    ("same_type_name_in_two_modules", "mod left {\n  pub type alias Frame = (float, float)\n  fn spare(f: Frame, g: float) -> float {\n    g\n  }\n  pub fn mix(a, b) {\n    a + b\n  }\n}\nmod right {\n  pub type alias Frame = float\n  pub fn pass(g) {\n    g * 2.0\n  }\n}\nfn dsp(x) {\n  left::mix(x, 2.0) + right::pass(4.0)\n}\n"),
    ("same_type_name_in_two_modules_used", "mod left {\n  pub type alias Frame = (float, float)\n  fn sum(f: Frame) -> float {\n    let (p, q) = f\n    p + q\n  }\n  pub fn mix(a, b) {\n    sum((a, b))\n  }\n}\nmod right {\n  pub type alias Frame = float\n  pub fn pass(g) {\n    g * 2.0\n  }\n}\nfn dsp(x) {\n  left::mix(x, 2.0) + right::pass(4.0)\n}\n"),
];

#[derive(Clone, PartialEq, Debug)]
pub struct Obs {
    pub bytecode: u64,
    pub wasm: u64,
    pub mir: u64,
    pub layout: String,
    pub out_vm: u64,
    pub out_wasm: u64,
    pub summary: String,
}
fn hash_out(r: &Result<crate::run::FullRun, crate::run::RunErr>) -> u64 {
    match r {
        Ok(fr) => {
            let mut k = vec![];
            for o in &fr.out {
                for x in o {
                    k.extend_from_slice(&x.to_bits().to_le_bytes());
                }
                k.push(b'|');
            }
            fnv(&k)
        }
        Err(e) => fnv(format!("{e:?}").as_bytes()),
    }
}
pub fn observe(pi: usize) -> Obs {
    let src = PROGRAMS[pi].1;
    let mut ctx = ExecContext::new([].into_iter(), Some("/verif-input.mmm".into()), Config::default());
    ctx.add_system_plugin(mimium_scheduler::get_default_scheduler_plugin());
    ctx.prepare_compiler();
    let c = ctx.get_compiler().unwrap();
    let (bytecode, layout, bsum) = match catch(|| c.emit_bytecode(src)) {
        Ok(Ok(p)) => {
            let s = format!("{p}");
            (fnv(s.as_bytes()), format!("{:?}", p.get_dsp_state_skeleton()), format!("{} bytes of listing", s.len()))
        }
        Ok(Err(e)) => (fnv(crate::run::errs_to_strings(&e).join("|").as_bytes()), "rejected".into(), "rejected".into()),
        Err(m) => (fnv(m.as_bytes()), "panic".into(), format!("panic {m}")),
    };
    let (wasm, wsum) = match catch(|| c.emit_wasm(src)) {
        Ok(Ok(w)) => (fnv(&w.bytes), format!("{} wasm bytes", w.bytes.len())),
        Ok(Err(e)) => (fnv(crate::run::errs_to_strings(&e).join("|").as_bytes()), "rejected".into()),
        Err(m) => (fnv(m.as_bytes()), format!("panic {m}")),
    };
    // the MIR text embeds interner ids and is not one of the artefacts the property names: not produced
    let mir = 0;
    let inp = |t: usize| vec![stream(0, t)];
    let out_vm = hash_out(&full_run(Backend::Vm, src, true, 6, &inp, false));
    let out_wasm = hash_out(&full_run(Backend::Wasm, src, true, 6, &inp, false));
    Obs { bytecode, wasm, mir, layout, out_vm, out_wasm, summary: format!("{bsum}, {wsum}") }
}
/// an earlier element of a history: the program is compiled by both compile entry points (not run)
pub fn compile_only(pi: usize) {
    let src = PROGRAMS[pi].1;
    let mut ctx = ExecContext::new([].into_iter(), Some("/verif-input.mmm".into()), Config::default());
    ctx.add_system_plugin(mimium_scheduler::get_default_scheduler_plugin());
    ctx.prepare_compiler();
    let c = ctx.get_compiler().unwrap();
    let _ = catch(|| c.emit_bytecode(src).map(|_| ()));
    let _ = catch(|| c.emit_wasm(src).map(|_| ()));
}
pub fn obs_line(o: &Obs) -> String {
    // the MIR text embeds interner ids and is not one of the artefacts the property names: not compared
    format!("{:x} {:x} {:x} {:x} {}", o.bytecode, o.wasm, o.out_vm, o.out_wasm, o.layout.replace(' ', ""))
}
/// observation of program pi in fresh processes (R of them; they must agree among themselves)
fn fresh(pi: usize, r: usize) -> Result<String, String> {
    static CACHE: OnceLock<Mutex<BTreeMap<usize, Result<String, String>>>> = OnceLock::new();
    let cache = CACHE.get_or_init(|| Mutex::new(BTreeMap::new()));
    if let Some(v) = cache.lock().unwrap().get(&pi) {
        return v.clone();
    }
    let exe = std::env::current_exe().unwrap();
    let mut lines = vec![];
    for k in 1..=r {
        // fresh process number k runs under hash-seed index k
        let out = std::process::Command::new(&exe).env("VERIF_DET_RANDOM", k.to_string()).arg("c15obs").arg(pi.to_string()).output().map_err(|e| e.to_string());
        match out {
            Ok(o) => lines.push(String::from_utf8_lossy(&o.stdout).lines().last().unwrap_or("").to_string()),
            Err(e) => lines.push(format!("spawn error {e}")),
        }
    }
    let res = if lines.iter().all(|l| l == &lines[0] && !l.is_empty()) { Ok(lines[0].clone()) } else { Err(format!("fresh processes disagree: {lines:?}")) };
    cache.lock().unwrap().insert(pi, res.clone());
    res
}

fn params(tier: Tier) -> (u32, usize) {
    match tier {
        Tier::Quick => (3, 3),
        Tier::Thorough => (4, 12),
    }
}
fn n_seeds(tier: Tier) -> u64 {
    match tier {
        Tier::Quick => 5,
        Tier::Thorough => 11,
    }
}
fn decode(idx: u64, d: u32) -> Vec<usize> {
    crate::fam::seq_decode(idx, PROGRAMS.len() as u64, d).into_iter().map(|x| x as usize).collect()
}

impl Prop for C15 {
    fn id(&self) -> &'static str {
        "C15"
    }
    fn n_cases(&self, tier: Tier) -> u64 {
        crate::fam::seq_count(PROGRAMS.len() as u64, params(tier).0)
    }
    fn chunk(&self, _t: Tier) -> u64 {
        10
    }
    fn recycle_after(&self) -> u64 {
        40
    }
    fn case_cap_ms(&self) -> u64 {
        120_000
    }
    fn run_case(&self, tier: Tier, idx: u64) -> CaseOut {
        let (d, r) = params(tier);
        let hist = decode(idx, d);
        let mut fails = vec![];
        let last = *hist.last().unwrap();
        // The history runs on a thread of its own, started under hash-seed index `seed`: std seeds the HashMaps of a
        // thread from getrandom, which the harness owns (main.rs), so the case is a function of (history, seed) and
        // replays exactly; the seed index cycles with the case index, so every program is observed under every index.
        let seed = 1 + idx % n_seeds(tier);
        if !crate::hash_seed_controlled() {
            fails.push(Fail { clause: "harness_panic".into(), detail: "VERIF_DET_RANDOM is not set: hash seeds would not be controlled (run through ./check)".into() });
        }
        crate::set_hash_seed(seed);
        let h2 = hist.clone();
        let (o, o2) = std::thread::Builder::new()
            .stack_size(64 << 20)
            .spawn(move || {
                quiet_panics();
                for &pi in &h2[..h2.len() - 1] {
                    compile_only(pi);
                }
                let o = observe(last);
                // compile the observed program once more: repeated compilation in one process
                let o2 = observe(last);
                (o, o2)
            })
            .unwrap()
            .join()
            .unwrap_or_else(|_| panic!("history thread panicked"));
        let names: Vec<&str> = hist.iter().map(|&i| PROGRAMS[i].0).collect();
        let mut outcome = "deterministic";
        if obs_line(&o) != obs_line(&o2) {
            outcome = "differs";
            fails.push(Fail { clause: "repeated_compilation_in_one_process_differs".into(), detail: format!("history {names:?}: {} vs {}", obs_line(&o), obs_line(&o2)) });
        }
        match fresh(last, r) {
            Ok(line) => {
                if line != obs_line(&o) {
                    outcome = "differs";
                    let (a, b): (Vec<&str>, Vec<String>) = (line.split(' ').collect(), obs_line(&o).split(' ').map(String::from).collect());
                    let which: Vec<&str> = ["bytecode_listing", "wasm_bytes", "vm_outputs", "wasm_outputs", "state_layout"].iter().zip(a.iter().zip(b.iter())).filter(|(_, (x, y))| x != &&y.as_str()).map(|(n, _)| *n).collect();
                    fails.push(Fail { clause: format!("compilation_depends_on_history:{}", which.join("+")), detail: format!("after {names:?}: {} ; fresh process: {line}", obs_line(&o)) });
                }
            }
            Err(m) => {
                outcome = "differs";
                fails.push(Fail { clause: "fresh_processes_disagree".into(), detail: m });
            }
        }
        CaseOut {
            key: idx,
            nontrivial: true,
            outcome: outcome.into(),
            fails,
            tags: vec![format!("last:{}", PROGRAMS[last].0)],
            repr: json!({"history": names, "hash_seed_index": seed, "observation": obs_line(&o), "summary": o.summary}),
            counters: vec![("states".into(), 1), ("transitions".into(), hist.len() as u64 + 1), ("traces".into(), 1), (format!("observed_{}", PROGRAMS[last].0), 1)],
        }
    }
    fn min_outcomes(&self) -> usize {
        1
    }
    fn describe_case(&self, tier: Tier, idx: u64) -> (Value, Vec<String>) {
        let hist = decode(idx, params(tier).0);
        (json!({"history": hist.iter().map(|&i| PROGRAMS[i].0).collect::<Vec<_>>()}), vec![])
    }
    fn describe(&self, tier: Tier) -> Descr {
        let (d, r) = params(tier);
        Descr {
            rule: format!(
                "{} programs exercising every table the compiler keys by name or hash, three of them re-using the short names of others with another meaning (a type alias of the same name in another module, the same constructors in another order) (stateful functions, closures and lambda labels, enums and constructors, records and aliases, modules / use / re-export / wildcard, macros and lifted numbers, many functions and math imports, boxed recursive types, scheduler, tuples and multi-word if); every history of 1..={d} compilations is run inside a worker process (on top of whatever that worker compiled before) and the observation of the last one — hash of the bytecode listing, of the WASM bytes, the dsp state layout, VM and WASM outputs of 6 samples — is compared with a second compilation right after it and with the observation from {r} fresh processes (which must agree among themselves). The HashMap seeds are owned by the harness (getrandom interposed): fresh process k runs under hash-seed index k = 1..{r}, and the history of case i runs on a new thread under index 1 + i mod {}, so the explored set of seeds is stated and every case replays exactly. states = histories; non-trivial = every case.",
                PROGRAMS.len(),
                n_seeds(tier)
            ),
            assumptions: vec![format!("the hash-seed dimension of HashMap iteration order is not enumerable (2^128 seeds): {r} seed indices for fresh processes and {} for histories are explored, chosen by the harness, not drawn at random; seed-dependent behaviour that needs another seed is not seen", n_seeds(tier)), "worker processes are recycled every 40 cases, so histories also differ in their (unrecorded) prefix".into()],
            bounds: json!({"programs": PROGRAMS.len(), "history_length": d, "fresh_processes_per_program": r, "hash_seed_indices_fresh": r, "hash_seed_indices_histories": n_seeds(tier)}),
            shape: "S",
        }
    }
    fn vacuity(&self, _t: Tier, c: &BTreeMap<String, u64>) -> Vec<String> {
        PROGRAMS.iter().filter(|p| c.get(&format!("observed_{}", p.0)).copied().unwrap_or(0) == 0).map(|p| format!("program {} never observed", p.0)).collect()
    }
}
