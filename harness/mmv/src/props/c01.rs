//! C01 — VM and WASM agree: accept/reject, channel count, bitwise-identical samples (NaN = NaN)
//! for every program of the Σ families, input stream and sample index, with and without scheduler.

use crate::engine::*;

use crate::pc::*;
use crate::run::{Backend, RunErr, bits_eq};
use serde_json::{Value, json};
use std::collections::BTreeMap;
use std::sync::OnceLock;

pub struct C01;

fn space(tier: Tier) -> &'static Space {
    static Q: OnceLock<Space> = OnceLock::new();
    static T: OnceLock<Space> = OnceLock::new();
    match tier {
        Tier::Quick => Q.get_or_init(|| Space::new(&[("FX", 0), ("FS", 2), ("FC", 2), ("FA", 2), ("FT", 2), ("FL", 2), ("FW", 0), ("FM", 0), ("FR", 0)])),
        Tier::Thorough => T.get_or_init(|| Space::new(&[("FX", 0), ("FS", 3), ("FC", 4), ("FA", 4), ("FT", 3), ("FL", 4), ("FW", 0), ("FM", 0), ("FR", 0)])),
    }
}
/// (samples, [(stream, scheduler installed)])
fn params(tier: Tier, family: &str) -> (usize, Vec<(usize, bool)>) {
    match (tier, family) {
        (Tier::Quick, "FX") => (4, vec![(1, true)]),
        (Tier::Quick, "FT") | (Tier::Quick, "FL") | (Tier::Quick, "FR") => (10, vec![(0, true)]),
        (Tier::Quick, _) => (12, vec![(0, true), (1, false)]),
        (Tier::Thorough, "FX") => (4, vec![(1, true), (1, false)]),
        (Tier::Thorough, "FT") | (Tier::Thorough, "FL") | (Tier::Thorough, "FR") => (16, vec![(0, true), (1, true)]),
        (Tier::Thorough, _) => (32, vec![(0, true), (0, false), (1, false), (2, true)]),
    }
}

impl Prop for C01 {
    fn id(&self) -> &'static str {
        "C01"
    }
    fn n_cases(&self, tier: Tier) -> u64 {
        space(tier).n()
    }
    fn chunk(&self, _t: Tier) -> u64 {
        100
    }
    fn recycle_after(&self) -> u64 {
        4_000
    }
    fn run_case(&self, tier: Tier, idx: u64) -> CaseOut {
        let (fname, g) = space(tier).get(idx);
        let Some(g) = g else {
            return CaseOut { key: idx, nontrivial: false, outcome: "invalid_index".into(), counters: vec![(format!("invalid_{fname}"), 1)], ..Default::default() };
        };
        let src = g.source();
        let tags = g.tags();
        let (n, cfgs) = params(tier, g.family);
        let mut fails: Vec<Fail> = vec![];
        let mut outcome = "agree";
        let mut nonconst = false;
        let mut runs = 0u64;
        for (si, sched) in cfgs {
            let needs_sched = ["FT", "FL", "FW", "FR"].contains(&g.family);
            let sched = sched || needs_sched;
            let vm = run_backend(Backend::Vm, &src, sched, g.inputs, si, n, false);
            let wa = run_backend(Backend::Wasm, &src, sched, g.inputs, si, n, false);
            runs += 2;
            let cfg = format!("stream {si}, scheduler {}", if sched { "on" } else { "off" });
            match (vm, wa) {
                (Ok(a), Ok(b)) => {
                    if a.io != b.io {
                        outcome = "differ";
                        fails.push(Fail { clause: "channel_count_differs".into(), detail: format!("{cfg}: vm io={:?} wasm io={:?}", a.io, b.io) });
                    } else if let Some((_, d)) = first_diff(&a.out, &b.out, bits_eq) {
                        outcome = "differ";
                        fails.push(Fail { clause: "output_differs".into(), detail: format!("{cfg}: {d} (vm vs wasm); vm={} wasm={}", show(&a.out, 6), show(&b.out, 6)) });
                    }
                    if a.out.iter().any(|o| o != &a.out[0]) {
                        nonconst = true;
                    }
                }
                (Err(RunErr::Compile(_)), Err(RunErr::Compile(_))) => {
                    outcome = "both_reject";
                    break;
                }
                (Err(RunErr::Compile(es)), Ok(_)) | (Err(RunErr::Compile(es)), Err(RunErr::Crash(_))) => {
                    outcome = "differ";
                    fails.push(Fail { clause: "vm_rejects_wasm_accepts".into(), detail: format!("{cfg}: {}", es.join(" | ")) });
                    break;
                }
                (Ok(_), Err(RunErr::Compile(es))) | (Err(RunErr::Crash(_)), Err(RunErr::Compile(es))) => {
                    outcome = "differ";
                    fails.push(Fail { clause: "wasm_rejects_vm_accepts".into(), detail: format!("{cfg}: {}", es.join(" | ")) });
                    break;
                }
                (Err(RunErr::Crash(m)), Ok(_)) => {
                    outcome = "differ";
                    fails.push(Fail { clause: format!("vm_crash_{}_wasm_runs", crash_label(&m)), detail: format!("{cfg}: {m}") });
                }
                (Ok(_), Err(RunErr::Crash(m))) => {
                    outcome = "differ";
                    fails.push(Fail { clause: format!("wasm_crash_{}_vm_runs", crash_label(&m)), detail: format!("{cfg}: {m}") });
                }
                (Err(RunErr::Crash(_)), Err(RunErr::Crash(_))) => {
                    // no output on either side: C03's subject
                    outcome = "both_crash";
                }
            }
        }
        fails.dedup_by(|a, b| a.clause == b.clause);
        CaseOut {
            key: fnv(src.as_bytes()),
            nontrivial: nonconst,
            outcome: outcome.into(),
            fails,
            tags,
            repr: gen_repr(&g, &src),
            counters: vec![(format!("family_{}", g.family), 1), ("backend_runs".into(), runs)],
        }
    }
    fn describe_case(&self, tier: Tier, idx: u64) -> (Value, Vec<String>) {
        match space(tier).get(idx).1 {
            Some(g) => {
                let src = g.source();
                (gen_repr(&g, &src), g.tags())
            }
            None => (json!({"idx": idx}), vec![]),
        }
    }
    fn crash_clause(&self) -> &'static str {
        "process_crash_or_hang"
    }
    fn describe(&self, tier: Tier) -> Descr {
        Descr {
            rule: format!(
                "every operation sequence of the program families {} (built by the harness, printed to source) compiled and run on the bytecode VM (ExecContext/VmDspRuntime) and on the WASM backend (emit_wasm/WasmEngine/WasmDspRuntime, the CLI's path), same input streams ({STREAM_DESCR}), with the scheduler plugin installed and without; accept/reject, io channel counts and every output word of every sample compared bitwise (all NaNs identified). distinct = FNV-64 of source; non-trivial = both run and the output is not constant over time.",
                space(tier).describe()
            ),
            assumptions: vec!["both-backends-crash is left to C03".into(), "programs are the harness's families; corpus programs are covered by the repository's own fixture tests".into()],
            bounds: json!({"families": space(tier).describe(), "samples_FX": 4, "samples_other": params(tier, "FS").0}),
            shape: "E",
        }
    }
    fn vacuity(&self, _t: Tier, c: &BTreeMap<String, u64>) -> Vec<String> {
        ["family_FX", "family_FS", "family_FC", "family_FA", "family_FT"].iter().filter(|k| c.get(**k).copied().unwrap_or(0) == 0).map(|k| format!("{k} empty")).collect()
    }
}
