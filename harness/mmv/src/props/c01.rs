//! C01 — VM and WASM agree: accept/reject, channel count, bitwise-identical samples (NaN = NaN)
//! for every program of the Σ families, input stream and sample index, with and without scheduler.

use crate::engine::*;

use crate::pc::*;
use crate::run::{Backend, RunErr, bits_eq};
use serde_json::{Value, json};
use std::collections::BTreeMap;
use std::sync::OnceLock;

pub struct C01;

fn space(tier: Tier) -> &'static Space {
    static Q: OnceLock<Space> = OnceLock::new();
    static T: OnceLock<Space> = OnceLock::new();
    match tier {
        Tier::Quick => Q.get_or_init(|| Space::new(&[("FX", 0), ("FS", 2), ("FC", 2), ("FA", 2), ("FT", 2), ("FL", 2), ("FW", 0), ("FM", 0), ("FR", 0), ("FB", 2), ("FO", 0)])),
        Tier::Thorough => T.get_or_init(|| Space::new(&[("FX", 0), ("FS", 3), ("FC", 3), ("FA", 3), ("FT", 3), ("FL", 4), ("FW", 0), ("FM", 0), ("FR", 0), ("FB", 3), ("FO", 0)])),
    }
}
/// (samples, [(stream, scheduler installed)])
fn params(tier: Tier, family: &str) -> (usize, Vec<(usize, bool)>) {
    match (tier, family) {
        (Tier::Quick, "FX") => (4, vec![(1, true)]),
        (Tier::Quick, "FT") | (Tier::Quick, "FL") | (Tier::Quick, "FR") | (Tier::Quick, "FO") => (10, vec![(0, true)]),
        (Tier::Quick, _) => (12, vec![(0, true), (1, false)]),
        (Tier::Thorough, "FX") => (4, vec![(1, true), (1, false)]),
        (Tier::Thorough, "FT") | (Tier::Thorough, "FL") | (Tier::Thorough, "FR") | (Tier::Thorough, "FO") => (16, vec![(0, true), (1, true)]),
        (Tier::Thorough, _) => (32, vec![(0, true), (2, false)]),
    }
}

// ---------------------------------------------------------------- corpus programs and their deviation-1 mutants
// Every shipped .mmm file (library, examples, test fixtures) that is at most CORPUS_MAX_BYTES long, unmutated and
// under every single token-level mutation from a small menu: a number literal replaced by 0.0 / 1.0 / 0.5 / 2.0, an
// arithmetic operator by the other arithmetic operators, a comparison by two others, `&&` and `||` exchanged.
// The file keeps its real path, so relative includes and `mod x;` resolve as they do for a user.
const CORPUS_MAX_BYTES: usize = 4000;
const LITERALS: [&str; 4] = ["0.0", "1.0", "0.5", "2.0"];
struct CorpusSpace {
    /// (corpus index, mutation sites: (byte start, byte length, replacement))
    files: Vec<(usize, Vec<(usize, usize, &'static str)>)>,
    /// cumulative number of cases (1 + sites per file)
    cum: Vec<u64>,
}
fn mutation_sites(text: &str) -> Vec<(usize, usize, &'static str)> {
    use mimium_lang::compiler::parser::{self, TokenKind as K};
    let Ok(toks) = catch(|| parser::tokenize(text)) else { return vec![] };
    let mut v = vec![];
    for t in toks {
        let orig = text.get(t.start..t.start + t.length).unwrap_or("");
        let reps: &[&'static str] = match t.kind {
            K::Float | K::Int => &LITERALS,
            K::OpSum | K::OpMinus | K::OpProduct | K::OpDivide | K::OpModulo | K::OpExponent => &["+", "-", "*", "/", "%", "^"],
            K::OpLessThan => &[">", "<="],
            K::OpLessEqual => &["<", ">="],
            K::OpGreaterThan => &["<", ">="],
            K::OpGreaterEqual => &[">", "<="],
            K::OpEqual => &["!=", "<="],
            K::OpNotEqual => &["==", ">"],
            K::OpAnd => &["||"],
            K::OpOr => &["&&"],
            _ => &[],
        };
        for r in reps {
            if *r != orig {
                v.push((t.start, t.length, *r));
            }
        }
    }
    v
}
fn is_recursive(text: &str) -> bool {
    if text.contains("letrec ") {
        return true;
    }
    for (i, _) in text.match_indices("fn ") {
        let rest = &text[i + 3..];
        let end = rest.find(|c: char| !(c.is_alphanumeric() || c == '_')).unwrap_or(rest.len());
        if end == 0 {
            continue;
        }
        let name = &rest[..end];
        // the body: from the first `{` after the header to its matching `}`
        let Some(open) = rest.find('{') else { continue };
        let mut depth = 0i32;
        let mut close = rest.len();
        for (k, ch) in rest[open..].char_indices() {
            match ch {
                '{' => depth += 1,
                '}' => {
                    depth -= 1;
                    if depth == 0 {
                        close = open + k;
                        break;
                    }
                }
                _ => {}
            }
        }
        let body = &rest[open..close];
        if body.contains(&format!("{name}(")) || body.contains(&format!("{name}@")) {
            return true;
        }
    }
    false
}
fn corpus_space() -> &'static CorpusSpace {
    static S: OnceLock<CorpusSpace> = OnceLock::new();
    S.get_or_init(|| {
        let mut files = vec![];
        let mut cum = vec![0u64];
        for (ci, f) in crate::corpus::corpus().iter().enumerate() {
            if f.text.len() > CORPUS_MAX_BYTES || !f.text.contains("dsp") {
                continue;
            }
            // no mutants of files with recursion (a function or letrec whose name occurs again as a callee, at run time
            // or at the macro stage): a mutated bound or step makes the recursion unbounded, which is the program's
            // meaning and kills the process on either backend
            let sites = if is_recursive(&f.text) { vec![] } else { mutation_sites(&f.text) };
            cum.push(cum.last().unwrap() + 1 + sites.len() as u64);
            files.push((ci, sites));
        }
        CorpusSpace { files, cum }
    })
}
/// quick tier: every file unmutated and every QUICK_MUTANT_STRIDE-th mutant
const QUICK_MUTANT_STRIDE: u64 = 8;
/// quick tier: mutants only of files up to this size (the larger ones pull in libraries and cost seconds per run)
const QUICK_MUTANT_MAX_BYTES: usize = 1200;
fn n_corpus() -> u64 {
    *corpus_space().cum.last().unwrap()
}
fn corpus_case(k: u64) -> (usize, Option<(usize, usize, &'static str)>) {
    let cs = corpus_space();
    let fi = cs.cum.partition_point(|&c| c <= k) - 1;
    let m = k - cs.cum[fi];
    let (ci, sites) = &cs.files[fi];
    (*ci, if m == 0 { None } else { Some(sites[(m - 1) as usize]) })
}
fn run_corpus_case(tier: Tier, k: u64) -> CaseOut {
    let (ci, mutation) = corpus_case(k);
    if tier == Tier::Quick && mutation.is_some() && (k % QUICK_MUTANT_STRIDE != 0 || crate::corpus::corpus()[ci].text.len() > QUICK_MUTANT_MAX_BYTES) {
        return CaseOut { key: k, nontrivial: false, outcome: "not_in_quick_tier".into(), ..Default::default() };
    }
    let f = &crate::corpus::corpus()[ci];
    let rel = f.path.strip_prefix(crate::corpus::repo_root()).unwrap_or(&f.path).to_string_lossy().to_string();
    let (src, what) = match mutation {
        None => (f.text.clone(), "unmutated".to_string()),
        Some((s, l, r)) => {
            let mut t = f.text.clone();
            t.replace_range(s..s + l, r);
            let line = f.text[..s].matches('\n').count() + 1;
            (t, format!("`{}` -> `{r}` at byte {s} (line {line})", &f.text[s..s + l]))
        }
    };
    let n = if tier == Tier::Thorough { 24 } else { 10 };
    let stream = |t: usize, nin: usize| inputs_for(1, nin)(t);
    crate::run::set_source_path(Some(f.path.clone()));
    let vm = crate::run::full_run_auto(Backend::Vm, &src, true, n, &stream);
    let wa = crate::run::full_run_auto(Backend::Wasm, &src, true, n, &stream);
    crate::run::set_source_path(None);
    let mut fails: Vec<Fail> = vec![];
    let mut outcome = "agree";
    let mut nontrivial = false;
    let cfg = format!("{rel} {what}");
    match (vm, wa) {
        (Ok(a), Ok(b)) => {
            nontrivial = true;
            if a.io != b.io {
                outcome = "differ";
                fails.push(Fail { clause: "channel_count_differs".into(), detail: format!("{cfg}: vm io={:?} wasm io={:?}", a.io, b.io) });
            } else if let Some((_, d)) = first_diff(&a.out, &b.out, bits_eq) {
                outcome = "differ";
                fails.push(Fail { clause: "output_differs".into(), detail: format!("{cfg}: {d} (vm vs wasm); vm={} wasm={}", show(&a.out, 6), show(&b.out, 6)) });
            }
        }
        (Err(RunErr::Compile(_)), Err(RunErr::Compile(_))) => outcome = "both_reject",
        (Err(RunErr::Compile(es)), _) => {
            outcome = "differ";
            fails.push(Fail { clause: "vm_rejects_wasm_accepts".into(), detail: format!("{cfg}: {}", es.join(" | ").chars().take(300).collect::<String>()) });
        }
        (_, Err(RunErr::Compile(es))) => {
            outcome = "differ";
            fails.push(Fail { clause: "wasm_rejects_vm_accepts".into(), detail: format!("{cfg}: {}", es.join(" | ").chars().take(300).collect::<String>()) });
        }
        (Err(RunErr::Crash(m)), Ok(_)) => {
            outcome = "differ";
            fails.push(Fail { clause: format!("vm_crash_{}_wasm_runs", crash_label(&m)), detail: format!("{cfg}: {m}") });
        }
        (Ok(_), Err(RunErr::Crash(m))) => {
            outcome = "differ";
            fails.push(Fail { clause: format!("wasm_crash_{}_vm_runs", crash_label(&m)), detail: format!("{cfg}: {m}") });
        }
        (Err(RunErr::Crash(_)), Err(RunErr::Crash(_))) => outcome = "both_crash",
    }
    let fname = f.path.file_name().map(|s| s.to_string_lossy().to_string()).unwrap_or_default();
    let mut tags = vec!["corpus".to_string(), format!("file:{fname}"), if mutation.is_some() { "corpus_mutant".to_string() } else { "corpus_unmutated".to_string() }];
    if let Some((_, _, r)) = mutation {
        tags.push(format!("mutated_to:{r}"));
    }
    CaseOut {
        key: fnv(format!("{rel}\n{src}").as_bytes()),
        nontrivial,
        outcome: outcome.into(),
        fails,
        tags,
        repr: json!({"file": rel, "mutation": what, "source": if mutation.is_some() { src.chars().take(3000).collect::<String>() } else { String::new() }}),
        counters: vec![("family_corpus".into(), 1), ("backend_runs".into(), 2), (if mutation.is_some() { "corpus_mutants".to_string() } else { "corpus_files".to_string() }, 1)],
    }
}

impl Prop for C01 {
    fn id(&self) -> &'static str {
        "C01"
    }
    fn n_cases(&self, tier: Tier) -> u64 {
        space(tier).n() + n_corpus()
    }
    fn chunk(&self, _t: Tier) -> u64 {
        40
    }
    fn recycle_after(&self) -> u64 {
        4_000
    }
    fn shards_per_job(&self) -> u64 {
        24
    }
    fn expensive_cases_last(&self) -> bool {
        // the corpus part (large files that pull in libraries) sits at the end of the index space
        true
    }
    fn run_case(&self, tier: Tier, idx: u64) -> CaseOut {
        if idx >= space(tier).n() {
            return run_corpus_case(tier, idx - space(tier).n());
        }
        let (fname, g) = space(tier).get(idx);
        let Some(g) = g else {
            return CaseOut { key: idx, nontrivial: false, outcome: "invalid_index".into(), counters: vec![(format!("invalid_{fname}"), 1)], ..Default::default() };
        };
        let src = g.source();
        let tags = g.tags();
        let (n, cfgs) = params(tier, g.family);
        let mut fails: Vec<Fail> = vec![];
        let mut outcome = "agree";
        let mut nonconst = false;
        let mut runs = 0u64;
        for (si, sched) in cfgs {
            let needs_sched = ["FT", "FL", "FW", "FR", "FO"].contains(&g.family);
            let sched = sched || needs_sched;
            let vm = run_backend(Backend::Vm, &src, sched, g.inputs, si, n, false);
            let wa = run_backend(Backend::Wasm, &src, sched, g.inputs, si, n, false);
            runs += 2;
            let cfg = format!("stream {si}, scheduler {}", if sched { "on" } else { "off" });
            match (vm, wa) {
                (Ok(a), Ok(b)) => {
                    if a.io != b.io {
                        outcome = "differ";
                        fails.push(Fail { clause: "channel_count_differs".into(), detail: format!("{cfg}: vm io={:?} wasm io={:?}", a.io, b.io) });
                    } else if let Some((_, d)) = first_diff(&a.out, &b.out, bits_eq) {
                        outcome = "differ";
                        fails.push(Fail { clause: "output_differs".into(), detail: format!("{cfg}: {d} (vm vs wasm); vm={} wasm={}", show(&a.out, 6), show(&b.out, 6)) });
                    }
                    if a.out.iter().any(|o| o != &a.out[0]) {
                        nonconst = true;
                    }
                }
                (Err(RunErr::Compile(_)), Err(RunErr::Compile(_))) => {
                    outcome = "both_reject";
                    break;
                }
                (Err(RunErr::Compile(es)), Ok(_)) | (Err(RunErr::Compile(es)), Err(RunErr::Crash(_))) => {
                    outcome = "differ";
                    fails.push(Fail { clause: "vm_rejects_wasm_accepts".into(), detail: format!("{cfg}: {}", es.join(" | ")) });
                    break;
                }
                (Ok(_), Err(RunErr::Compile(es))) | (Err(RunErr::Crash(_)), Err(RunErr::Compile(es))) => {
                    outcome = "differ";
                    fails.push(Fail { clause: "wasm_rejects_vm_accepts".into(), detail: format!("{cfg}: {}", es.join(" | ")) });
                    break;
                }
                (Err(RunErr::Crash(m)), Ok(_)) => {
                    outcome = "differ";
                    fails.push(Fail { clause: format!("vm_crash_{}_wasm_runs", crash_label(&m)), detail: format!("{cfg}: {m}") });
                }
                (Ok(_), Err(RunErr::Crash(m))) => {
                    outcome = "differ";
                    fails.push(Fail { clause: format!("wasm_crash_{}_vm_runs", crash_label(&m)), detail: format!("{cfg}: {m}") });
                }
                (Err(RunErr::Crash(_)), Err(RunErr::Crash(_))) => {
                    // no output on either side: C03's subject
                    outcome = "both_crash";
                }
            }
        }
        fails.dedup_by(|a, b| a.clause == b.clause);
        CaseOut {
            key: fnv(src.as_bytes()),
            nontrivial: nonconst,
            outcome: outcome.into(),
            fails,
            tags,
            repr: gen_repr(&g, &src),
            counters: vec![(format!("family_{}", g.family), 1), ("backend_runs".into(), runs)],
        }
    }
    fn describe_case(&self, tier: Tier, idx: u64) -> (Value, Vec<String>) {
        if idx >= space(tier).n() {
            let (ci, m) = corpus_case(idx - space(tier).n());
            let f = &crate::corpus::corpus()[ci];
            let fname = f.path.file_name().map(|s| s.to_string_lossy().to_string()).unwrap_or_default();
            return (json!({"file": f.path.to_string_lossy(), "mutation": format!("{m:?}")}), vec!["corpus".into(), format!("file:{fname}")]);
        }
        match space(tier).get(idx).1 {
            Some(g) => {
                let src = g.source();
                (gen_repr(&g, &src), g.tags())
            }
            None => (json!({"idx": idx}), vec![]),
        }
    }
    fn crash_clause(&self) -> &'static str {
        "process_crash_or_hang"
    }
    fn describe(&self, tier: Tier) -> Descr {
        Descr {
            rule: format!(
                "every operation sequence of the program families {} (built by the harness, printed to source) compiled and run on the bytecode VM (ExecContext/VmDspRuntime) and on the WASM backend (emit_wasm/WasmEngine/WasmDspRuntime, the CLI's path), same input streams ({STREAM_DESCR}), with the scheduler plugin installed and without; accept/reject, io channel counts and every output word of every sample compared bitwise (all NaNs identified). distinct = FNV-64 of source; non-trivial = both run and the output is not constant over time.",
                space(tier).describe()
            ),
            assumptions: vec!["both-backends-crash is left to C03".into(), format!("corpus part: {} shipped files of at most {CORPUS_MAX_BYTES} bytes that mention dsp, each unmutated and under every single token mutation of the menu (number literal -> 0.0/1.0/0.5/2.0, arithmetic operator -> the others, comparison -> two others, && <-> ||): {} cases, run with the scheduler plugin and input stream 1 sized by the program's own input channels; the quick tier runs every file unmutated and every {QUICK_MUTANT_STRIDE}th mutant of the files of at most {QUICK_MUTANT_MAX_BYTES} bytes", corpus_space().files.len(), n_corpus())],
            bounds: json!({"families": space(tier).describe(), "samples_FX": 4, "samples_other": params(tier, "FS").0}),
            shape: "E",
        }
    }
    fn vacuity(&self, _t: Tier, c: &BTreeMap<String, u64>) -> Vec<String> {
        ["family_FX", "family_FS", "family_FC", "family_FA", "family_FT", "family_corpus"].iter().filter(|k| c.get(**k).copied().unwrap_or(0) == 0).map(|k| format!("{k} empty")).collect()
    }
}
