//! C05 — the published state layout (dsp state skeleton) describes exactly the run-time state
//! accesses: every Get/Set/Mem/Delay record of the hook trace coincides with a leaf of that kind
//! and size, stays inside the storage, the cursor is 0 after every dsp call, and the flat state
//! words are identical on VM and WASM after every sample.

use crate::engine::*;
use crate::pc::*;
use crate::run::{Backend, Run, RunErr, Skel};
use mimium_audiodriver::driver::VmDspRuntime;
use mimium_lang::verif_hooks::{self, Kind, StateAccess};
use serde_json::{Value, json};
use state_tree::tree::StateTreeSkeleton;
use std::collections::BTreeMap;
use std::sync::OnceLock;

pub struct C05;

fn space(tier: Tier) -> &'static Space {
    static Q: OnceLock<Space> = OnceLock::new();
    static T: OnceLock<Space> = OnceLock::new();
    match tier {
        Tier::Quick => Q.get_or_init(|| Space::new(&[("FS", 2), ("FC", 2), ("FA", 2)])),
        Tier::Thorough => T.get_or_init(|| Space::new(&[("FS", 3), ("FC", 3), ("FA", 3)])),
    }
}
fn params(tier: Tier) -> (usize, &'static [usize]) {
    match tier {
        Tier::Quick => (12, &[0]),
        Tier::Thorough => (24, &[0, 2]),
    }
}

#[derive(Debug, Clone, PartialEq)]
pub struct Leaf {
    pub off: usize,
    pub size: usize,
    pub kind: &'static str,
}
pub fn leaves(s: &Skel) -> Vec<Leaf> {
    fn go(s: &Skel, off: &mut usize, out: &mut Vec<Leaf>) {
        match s {
            StateTreeSkeleton::Delay { len } => {
                let size = *len as usize + 2;
                out.push(Leaf { off: *off, size, kind: "delay" });
                *off += size;
            }
            StateTreeSkeleton::Mem(t) => {
                let size = state_tree::tree::SizedType::word_size(t) as usize;
                out.push(Leaf { off: *off, size, kind: "mem" });
                *off += size;
            }
            StateTreeSkeleton::Feed(t) => {
                let size = state_tree::tree::SizedType::word_size(t) as usize;
                out.push(Leaf { off: *off, size, kind: "feed" });
                *off += size;
            }
            StateTreeSkeleton::FnCall(cs) => {
                for c in cs {
                    go(c, off, out)
                }
            }
        }
    }
    let mut out = vec![];
    let mut off = 0;
    go(s, &mut off, &mut out);
    out
}

/// check one sample's trace against the layout; returns failing clauses
pub fn check_trace(trace: &[StateAccess], lv: &[Leaf], total: usize, backend: &str, fails: &mut Vec<Fail>, accesses: &mut u64) {
    for a in trace {
        // the WASM host grows its state vector on demand: its bound is the layout's size, and a
        // storage longer than the layout is a failure
        let mut a = *a;
        if a.backend == 1 && a.storage == 0 {
            if a.len > total {
                fails.push(Fail { clause: format!("{backend}_storage_longer_than_layout"), detail: format!("storage has {} words, layout {total}", a.len) });
            }
            a.len = total;
        }
        let a = &a;
        let end = a.pos.checked_add(a.size);
        match a.kind {
            Kind::Push => {
                if a.storage == 0 && end.map(|e| e > a.len).unwrap_or(true) {
                    fails.push(Fail { clause: format!("{backend}_cursor_pushed_beyond_storage"), detail: format!("{a:?}") });
                }
            }
            Kind::Pop => {
                if a.size > a.pos {
                    fails.push(Fail { clause: format!("{backend}_cursor_underflow"), detail: format!("{a:?}") });
                }
            }
            Kind::Get | Kind::Set | Kind::Mem | Kind::Delay => {
                *accesses += 1;
                if end.map(|e| e > a.len).unwrap_or(true) {
                    fails.push(Fail { clause: format!("{backend}_access_outside_storage"), detail: format!("{a:?}") });
                    continue;
                }
                if a.storage != 0 {
                    continue; // closure-private storage: bounds only
                }
                if a.len != total {
                    fails.push(Fail { clause: format!("{backend}_storage_not_sized_from_layout"), detail: format!("storage has {} words, layout {total}; {a:?}", a.len) });
                }
                if a.size == 0 {
                    continue;
                }
                let want = match a.kind {
                    Kind::Get | Kind::Set => "feed",
                    Kind::Mem => "mem",
                    _ => "delay",
                };
                if !lv.iter().any(|l| l.off == a.pos && l.size == a.size && l.kind == want) {
                    let near = lv.iter().find(|l| l.off <= a.pos && a.pos < l.off + l.size);
                    fails.push(Fail {
                        clause: format!("{backend}_access_matches_no_{want}_cell"),
                        detail: format!("{:?} of {} words at offset {}; layout cell there: {near:?}", a.kind, a.size, a.pos),
                    });
                }
            }
        }
    }
}

fn vm_skeleton(r: &Run) -> Option<Skel> {
    match r {
        Run::Vm(v) => v.rd.downcast_runtime_ref::<VmDspRuntime>().and_then(|rt| rt.vm.prog.get_dsp_state_skeleton().cloned()),
        Run::Wasm(w) => w.prev_skel.clone(),
    }
}

impl Prop for C05 {
    fn id(&self) -> &'static str {
        "C05"
    }
    fn n_cases(&self, tier: Tier) -> u64 {
        space(tier).n()
    }
    fn chunk(&self, _t: Tier) -> u64 {
        100
    }
    fn recycle_after(&self) -> u64 {
        4_000
    }
    fn case_cap_ms(&self) -> u64 {
        30_000
    }
    fn run_case(&self, tier: Tier, idx: u64) -> CaseOut {
        let (fname, g) = space(tier).get(idx);
        let Some(g) = g else {
            return CaseOut { key: idx, nontrivial: false, outcome: "invalid_index".into(), counters: vec![(format!("invalid_{fname}"), 1)], ..Default::default() };
        };
        let src = g.source();
        let tags = g.tags();
        let (n, streams) = params(tier);
        let mut fails: Vec<Fail> = vec![];
        let mut outcome = "layout_matches".to_string();
        let mut accesses = 0u64;
        let mut nleaves = 0usize;
        let mut layout_s = String::new();
        'streams: for &si in streams {
            let inputs = inputs_for(si, g.inputs);
            let mut per_backend_states: Vec<Vec<Vec<u64>>> = vec![];
            for b in [Backend::Vm, Backend::Wasm] {
                let mut r = match Run::start(b, &src, false) {
                    Ok(r) => r,
                    Err(RunErr::Compile(_)) => {
                        outcome = "rejected".into();
                        break 'streams;
                    }
                    Err(RunErr::Crash(m)) => {
                        outcome = "crash".into();
                        fails.push(Fail { clause: format!("{}_crash_{}", b.name(), crash_label(&m)), detail: m });
                        break 'streams;
                    }
                };
                let Some(skel) = vm_skeleton(&r) else {
                    outcome = "no_skeleton".into();
                    break 'streams;
                };
                let lv = leaves(&skel);
                let total = skel.total_size() as usize;
                nleaves = lv.len();
                layout_s = format!("{skel:?}");
                let mut states = vec![];
                for t in 0..n {
                    verif_hooks::trace_start();
                    let res = r.step(t as u64, &inputs(t));
                    let trace = verif_hooks::trace_take();
                    let trace: Vec<StateAccess> = trace.into_iter().filter(|a| a.backend == if b == Backend::Vm { 0 } else { 1 }).collect();
                    check_trace(&trace, &lv, total, b.name(), &mut fails, &mut accesses);
                    if let Err(RunErr::Crash(m)) = res {
                        outcome = "crash".into();
                        fails.push(Fail { clause: format!("{}_crash_{}", b.name(), crash_label(&m)), detail: format!("sample {t}: {m}") });
                        break 'streams;
                    }
                    let (w, cur) = r.state();
                    if cur != 0 {
                        fails.push(Fail { clause: format!("{}_cursor_not_at_origin_after_dsp", b.name()), detail: format!("sample {t}: cursor {cur}") });
                    }
                    if (b == Backend::Vm && w.len() != total) || w.len() > total {
                        fails.push(Fail { clause: format!("{}_storage_not_sized_from_layout", b.name()), detail: format!("sample {t}: storage {} words, layout {total}", w.len()) });
                    }
                    states.push(w);
                    if fails.len() > 8 {
                        break;
                    }
                }
                per_backend_states.push(states);
            }
            if per_backend_states.len() == 2 {
                for (t, (a, b)) in per_backend_states[0].iter().zip(per_backend_states[1].iter()).enumerate() {
                    // zero-extend the lazily grown WASM vector
                    let mut b = b.clone();
                    if b.len() < a.len() {
                        b.resize(a.len(), 0);
                    }
                    let same = a.len() == b.len() && a.iter().zip(b.iter()).all(|(x, y)| x == y || (f64::from_bits(*x).is_nan() && f64::from_bits(*y).is_nan()));
                    if !same {
                        fails.push(Fail {
                            clause: "state_words_differ_vm_wasm".into(),
                            detail: format!("stream {si} sample {t}: vm={:?} wasm={:?}", a.iter().map(|w| f64::from_bits(*w)).collect::<Vec<_>>(), b.iter().map(|w| f64::from_bits(*w)).collect::<Vec<_>>()),
                        });
                        break;
                    }
                }
            }
        }
        if !fails.is_empty() && outcome == "layout_matches" {
            outcome = "layout_mismatch".into();
        }
        fails.sort_by(|a, b| a.clause.cmp(&b.clause));
        fails.dedup_by(|a, b| a.clause == b.clause);
        let mut repr = gen_repr(&g, &src);
        repr["layout"] = json!(layout_s);
        CaseOut {
            key: fnv(src.as_bytes()),
            nontrivial: nleaves > 0 && accesses > 0,
            outcome,
            fails,
            tags,
            repr,
            counters: vec![(format!("family_{}", g.family), 1), ("state_accesses_checked".into(), accesses), ("layout_cells".into(), nleaves as u64)],
        }
    }
    fn describe_case(&self, tier: Tier, idx: u64) -> (Value, Vec<String>) {
        match space(tier).get(idx).1 {
            Some(g) => (gen_repr(&g, &g.source()), g.tags()),
            None => (json!({"idx": idx}), vec![]),
        }
    }
    fn crash_clause(&self) -> &'static str {
        "process_crash_or_hang"
    }
    fn describe(&self, tier: Tier) -> Descr {
        let (n, streams) = params(tier);
        Descr {
            rule: format!(
                "every operation sequence of the program families {} run for {n} samples on {} input stream(s) chosen so that both arms of generated conditionals are taken, on the VM and on WASM with the cfg(mimium_verif) state-access trace on; each Get/Set/Mem/Delay record on the dsp storage must coincide (offset, size, kind) with a cell of the published dsp state skeleton and lie inside the storage, which must have the layout's size; cursor 0 after every dsp call; VM and WASM state words equal after every sample. distinct = FNV-64 of source; non-trivial = layout has >= 1 cell and >= 1 access was checked.",
                space(tier).describe(),
                streams.len()
            ),
            assumptions: vec![
                "relies on hooks H1/H3/H4 (state-access trace and accessors, cfg mimium_verif)".into(),
                "closure-private storages are checked for bounds and cursor only (their layout is not part of the published dsp skeleton)".into(),
                "the WASM host grows its state vector on demand: its accesses are bounded by the layout's size and its words are compared zero-extended".into(),
            ],
            bounds: json!({"samples": n, "streams": streams, "families": space(tier).describe()}),
            shape: "E",
        }
    }
    fn vacuity(&self, _t: Tier, c: &BTreeMap<String, u64>) -> Vec<String> {
        let mut v: Vec<String> = ["family_FS", "family_FC", "family_FA"].iter().filter(|k| c.get(**k).copied().unwrap_or(0) == 0).map(|k| format!("{k} empty")).collect();
        if c.get("state_accesses_checked").copied().unwrap_or(0) == 0 {
            v.push("no state access record was produced by the hooks".into());
        }
        v
    }
}
