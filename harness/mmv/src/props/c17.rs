//! C17 — module privacy and name resolution.  Family FM: a fixed module tree
//! `a { f, b { g } }` with every combination of `pub` on f, b and g, referenced through every
//! reference form (qualified path, use, multi-import, wildcard, re-export, chained re-export,
//! relative path, from root / sibling / child / parent) — compared with an independent Rust-like
//! visibility rule computed by the harness.

use crate::engine::*;
use crate::pc::crash_label;
use crate::run::{Backend, RunErr, full_run};
use serde_json::{Value, json};
use std::collections::BTreeMap;

pub struct C17;

const NFORMS: u64 = 28;

struct Case {
    src: String,
    /// Some(true): admissible, Some(false): must be rejected, None: not judged
    admissible: Option<bool>,
    expected: f64,
    form: &'static str,
}

fn p(b: bool) -> &'static str {
    if b { "pub " } else { "" }
}

fn build(idx: u64) -> Case {
    let form = idx % NFORMS;
    let bits = idx / NFORMS;
    let (pf, pb, pg) = (bits & 1 != 0, bits & 2 != 0, bits & 4 != 0);
    // extra members inserted into a / b / root for some forms
    let (mut in_a, mut in_b, mut root, body, adm, exp, name): (String, String, String, String, Option<bool>, f64, &'static str) = match form {
        0 => ("".into(), "".into(), "".into(), "a::f()".into(), Some(pf), 11.0, "qualified a::f"),
        1 => ("".into(), "".into(), "".into(), "a::b::g()".into(), Some(pb && pg), 22.0, "qualified a::b::g"),
        2 => ("".into(), "".into(), "use a::f\n".into(), "f()".into(), Some(pf), 11.0, "use a::f"),
        3 => ("".into(), "".into(), "use a::b::g\n".into(), "g()".into(), Some(pb && pg), 22.0, "use a::b::g"),
        4 => ("".into(), "".into(), "use a::{f, b}\n".into(), "f() + b::g()".into(), Some(pf && pb && pg), 33.0, "multi-import use a::{f, b}"),
        5 => ("".into(), "".into(), "use a::*\n".into(), "f()".into(), Some(pf), 11.0, "wildcard use a::*"),
        6 => ("".into(), "".into(), "use a::b::*\n".into(), "g()".into(), Some(pb && pg), 22.0, "wildcard use a::b::*"),
        7 => ("".into(), "".into(), "mod a2 {\n  pub use a::b::g\n}\n".into(), "a2::g()".into(), Some(pb && pg), 22.0, "re-export pub use a::b::g"),
        8 => ("".into(), "".into(), "mod a2 {\n  use a::b::g\n}\n".into(), "a2::g()".into(), Some(false), 22.0, "private use is not a re-export"),
        9 => ("".into(), "".into(), "mod a2 {\n  pub use a::f\n}\n".into(), "a2::f()".into(), Some(pf), 11.0, "re-export pub use a::f"),
        10 => ("  pub fn via() {\n    b::g()\n  }\n".into(), "".into(), "".into(), "a::via()".into(), Some(pg), 22.0, "relative path b::g from inside a"),
        11 => ("  pub fn outer() {\n    b::via()\n  }\n".into(), "    pub fn via() {\n      a::f()\n    }\n".into(), "".into(), "a::outer()".into(), Some(true), 11.0, "child module reads its parent's member"),
        12 => ("".into(), "".into(), "mod a2 {\n  pub fn h() {\n    a::b::g()\n  }\n}\n".into(), "a2::h()".into(), Some(pb && pg), 22.0, "sibling module reads a::b::g"),
        13 => ("".into(), "".into(), "use a::*\n".into(), "{\n    let f = | | 7.0\n    f()\n  }".into(), None, 7.0, "local let shadows wildcard import"),
        14 => ("".into(), "".into(), "fn g() {\n  0.5\n}\nuse a::b::*\n".into(), "g()".into(), None, 0.5, "root definition shadows wildcard import"),
        15 => ("".into(), "".into(), "mod a2 {\n  pub use a::b::g\n}\nmod a2x {\n  pub use a2::g\n}\n".into(), "a2x::g()".into(), Some(pb && pg), 22.0, "chained re-export"),
        16 => ("".into(), "".into(), "mod a2 {\n  pub use a::b::*\n}\n".into(), "a2::g()".into(), Some(pb && pg), 22.0, "wildcard re-export"),
        17 => ("".into(), "".into(), "use a::b\n".into(), "b::g()".into(), Some(pb && pg), 22.0, "use of a module then path"),
        18 => ("".into(), "".into(), "mod a2 {\n  pub fn h() {\n    a::f()\n  }\n}\n".into(), "a2::h()".into(), Some(pf), 11.0, "sibling module reads a::f"),
        19 => ("".into(), "".into(), "use a::*\n".into(), "b::g()".into(), Some(pb && pg), 22.0, "wildcard import then path through b"),
        20 => ("".into(), "".into(), "use a::f\n".into(), "{\n    let f = | | 7.0\n    f()\n  }".into(), None, 7.0, "local let shadows explicit import"),
        21 => ("".into(), "".into(), "mod a2 {\n  use a::f\n  pub fn h() {\n    f()\n  }\n}\n".into(), "a2::h()".into(), Some(pf), 11.0, "use inside a sibling module"),
        22 => ("  pub fn f2() {\n    f()\n  }\n".into(), "".into(), "".into(), "a::f2()".into(), Some(true), 11.0, "unqualified sibling inside a"),
        23 => ("".into(), "".into(), "mod a2 {\n  pub use a::b\n}\n".into(), "a2::b::g()".into(), Some(pb && pg), 22.0, "re-exported module then path"),
        // the same relative path, written in a function that follows the nested module in the source
        24 => ("".into(), "".into(), "".into(), "a::via()".into(), Some(pg), 22.0, "relative path b::g from inside a, after mod b"),
        // a module-level let inside a, then a top-level let that refers into a
        25 => ("".into(), "".into(), "let y = a::f()\n".into(), "y".into(), Some(pf), 11.0, "top-level let after a module that contains a let"),
        26 => ("".into(), "".into(), "let y = a::b::g()\n".into(), "y".into(), Some(pb && pg), 22.0, "top-level let into the nested module, after a module-level let"),
        // a top-level let with the same name as the module-level let inside a
        _ => ("".into(), "".into(), "let k = a::f()\n".into(), "k".into(), Some(pf), 11.0, "top-level let named like a module-level let of the module it refers into"),
    };
    let in_a_after: String = match form {
        24 => "  pub fn via() {\n    b::g()\n  }\n".into(),
        25 | 26 | 27 => "  let k = 1.0\n".into(),
        _ => String::new(),
    };
    let _ = (&mut in_a, &mut in_b, &mut root);
    let src = format!(
        "mod a {{\n  {}fn f() {{\n    11.0\n  }}\n{in_a}  {}mod b {{\n    {}fn g() {{\n      22.0\n    }}\n{in_b}  }}\n{in_a_after}}}\n{root}fn dsp() {{\n  {body}\n}}\n",
        p(pf),
        p(pb),
        p(pg)
    );
    Case { src, admissible: adm, expected: exp, form: name }
}

// ---------------------------------------------------------------- same-name module chain
// A chain of nested modules root > a > b > c.  The *same* member name `h` is defined at any subset of the four
// levels (each definition returns its own constant), each with or without `pub`, the inner modules with or without
// `pub`, members written before or after the nested module.  A probe function at one level refers to `h`
// unqualified, through an absolute path (`a::h`, `a::b::h`, `a::b::c::h`) or through a path relative to its own
// module (`b::h`, `b::c::h`, `c::h`).  The harness computes what the reference denotes:
//   unqualified: the definition of the innermost enclosing level that has one (none: the name is unbound);
//   path to level T: the definition at level T (none there: the path denotes nothing); it is admissible iff every
//   module on the way and the member are `pub` or defined in a module that encloses the referrer.
const LEVEL_VALUE: [f64; 4] = [1.0, 20.0, 300.0, 4000.0];
const MODS: [&str; 4] = ["", "a", "b", "c"];
/// reference forms: (probe level, target level or None for unqualified, relative?)
fn chain_forms() -> Vec<(usize, Option<usize>, bool)> {
    let mut v = vec![];
    for l in 0..4 {
        v.push((l, None, false));
        for t in 1..4 {
            v.push((l, Some(t), false));
        }
    }
    // relative paths from a parent into its descendants
    v.push((1, Some(2), true));
    v.push((1, Some(3), true));
    v.push((2, Some(3), true));
    v
}
fn n_chain() -> u64 {
    // staging variants (3) x defs(16) x pub h1,h2,h3 (8) x pub b,c (4) x order (2) x forms
    3 * 16 * 8 * 4 * 2 * chain_forms().len() as u64
}
struct Chain {
    src: String,
    /// Some(v): the reference denotes the definition returning v; None: it denotes nothing
    denotes: Option<f64>,
    admissible: bool,
    form: String,
    tags: Vec<String>,
}
fn build_chain(mut k: u64) -> Chain {
    let forms = chain_forms();
    let (probe, target, relative) = forms[(k % forms.len() as u64) as usize];
    k /= forms.len() as u64;
    let members_first = k % 2 == 0;
    k /= 2;
    let pub_mod = [true, true, k & 1 != 0, k & 2 != 0];
    k /= 4;
    let pub_h = [true, k & 1 != 0, k & 2 != 0, k & 4 != 0];
    k /= 8;
    let defs = [k & 1 != 0, k & 2 != 0, k & 4 != 0, k & 8 != 0];
    k /= 16;
    // 0: plain program; 1: a `#stage(macro)` section between the definitions (the rest of the program is a stage
    // section); 2: the reference itself is quoted and spliced back
    let staging = k % 3;
    // the reference
    let reference = match target {
        None => "h()".to_string(),
        Some(t) if relative => format!("{}::h()", MODS[probe + 1..=t].join("::")),
        Some(t) => format!("{}::h()", MODS[1..=t].join("::")),
    };
    let reference = if staging == 2 { format!("$(`({reference}))") } else { reference };
    let (denotes, admissible) = match target {
        None => ((0..=probe).rev().find(|&l| defs[l]).map(|l| LEVEL_VALUE[l]), true),
        Some(t) => {
            let vis = (1..=t).all(|j| pub_mod[j] || probe + 1 >= j) && (pub_h[t] || probe >= t);
            (defs[t].then_some(LEVEL_VALUE[t]), vis)
        }
    };
    // source: level i has (optionally) h, a pub probe p, and the nested module i+1
    fn level(i: usize, defs: &[bool; 4], pub_h: &[bool; 4], pub_mod: &[bool; 4], members_first: bool, probe: usize, reference: &str) -> String {
        let ind = "  ".repeat(i);
        let mut members = String::new();
        if defs[i] && i > 0 {
            members.push_str(&format!("{ind}{}fn h() {{\n{ind}  {}\n{ind}}}\n", if pub_h[i] { "pub " } else { "" }, crate::lang::fmt_num(LEVEL_VALUE[i])));
        }
        // the probe comes last: a function can only refer to what is defined before it
        let mut probe_fn = String::new();
        if i > 0 {
            let body = if i == probe { reference.to_string() } else if i < probe { format!("{}::p()", MODS[i + 1]) } else { "0.0".to_string() };
            probe_fn.push_str(&format!("{ind}pub fn p() {{\n{ind}  {body}\n{ind}}}\n"));
        }
        let nested = if i < 3 { format!("{ind}{}mod {} {{\n{}{ind}}}\n", if pub_mod[i + 1] { "pub " } else { "" }, MODS[i + 1], level(i + 1, defs, pub_h, pub_mod, members_first, probe, reference)) } else { String::new() };
        if members_first { format!("{members}{nested}{probe_fn}") } else { format!("{nested}{members}{probe_fn}") }
    }
    let root_h = if defs[0] { format!("fn h() {{\n  {}\n}}\n", crate::lang::fmt_num(LEVEL_VALUE[0])) } else { String::new() };
    let dsp = format!("fn dsp() {{\n  {}\n}}\n", if probe == 0 { reference.clone() } else { "a::p()".to_string() });
    let tree = level(0, &defs, &pub_h, &pub_mod, members_first, probe, &reference);
    let section = if staging == 1 { "#stage(macro)\nfn mm(c) {\n  c\n}\n#stage(main)\n" } else { "" };
    let src = if members_first { format!("{root_h}{section}{tree}{dsp}") } else { format!("{section}{tree}{root_h}{dsp}") };
    let kind = match (target, relative) {
        (None, _) => "unqualified",
        (_, true) => "relative_path",
        _ => "absolute_path",
    };
    let mut tags = vec!["chain".to_string(), format!("chain_{kind}"), format!("probe_level_{probe}"), format!("chain_denotes_{}", if denotes.is_some() { "a_definition" } else { "nothing" }), format!("chain_admissible_{admissible}")];
    if let Some(t) = target {
        tags.push(format!("target_level_{t}"));
        if !admissible && (pub_h[t] || probe >= t) {
            // the member itself is visible; only a module on the way is not `pub`
            tags.push("private_module_public_member".into());
        }
        if t <= probe {
            tags.push("path_into_an_enclosing_module".into());
        }
    }
    if defs.iter().filter(|d| **d).count() >= 2 {
        tags.push("name_defined_at_several_levels".into());
    }
    if target.is_none() && (0..=probe).rev().find(|&l| defs[l]).map(|l| l < probe).unwrap_or(false) {
        tags.push("unqualified_found_in_an_ancestor".into());
    }
    if target.is_none() && defs[probe + 1..].iter().any(|d| *d) {
        tags.push("name_also_defined_in_a_descendant".into());
    }
    tags.push(format!("chain_staging_{}", ["none", "stage_section", "reference_spliced"][staging as usize]));
    tags.push(if members_first { "members_before_nested_module".into() } else { "members_after_nested_module".into() });
    Chain { src, denotes, admissible, form: format!("{kind} `{reference}` from level {probe} ({})", if probe == 0 { "root".to_string() } else { MODS[1..=probe].join("::") }), tags }
}
fn run_chain(tier: Tier, k: u64) -> CaseOut {
    let c = build_chain(k);
    let must_reject = c.denotes.is_none() || !c.admissible;
    let mut fails = vec![];
    let mut outcome = String::new();
    let backends: &[Backend] = if tier == Tier::Thorough || k % 16 == 0 { &[Backend::Vm, Backend::Wasm] } else { &[Backend::Vm] };
    for &b in backends {
        match full_run(b, &c.src, false, 2, &|_| vec![], false) {
            Ok(fr) => {
                outcome.push('A');
                let got = fr.out.first().and_then(|o| o.first()).copied();
                if !c.admissible && c.denotes.is_some() {
                    fails.push(Fail { clause: format!("{}_private_member_referenced_from_outside", b.name()), detail: format!("{}: accepted, output {got:?}", c.form) });
                } else if c.denotes.is_none() {
                    fails.push(Fail { clause: format!("{}_reference_that_denotes_nothing_accepted", b.name()), detail: format!("{}: no definition of h at the level the reference denotes, yet accepted with output {got:?}", c.form) });
                } else if got != c.denotes {
                    fails.push(Fail { clause: format!("{}_reference_resolved_to_wrong_definition", b.name()), detail: format!("{}: output {got:?}, the reference denotes the definition returning {:?}", c.form, c.denotes) });
                }
            }
            Err(RunErr::Compile(_)) => outcome.push('R'),
            Err(RunErr::Crash(m)) => {
                outcome.push('P');
                fails.push(Fail { clause: format!("{}_crash_{}", b.name(), crash_label(&m)), detail: format!("{}: {m}", c.form) });
            }
        }
    }
    let stag = c.tags.iter().find(|t| t.starts_with("chain_staging_")).cloned().unwrap_or_default();
    CaseOut {
        key: fnv(c.src.as_bytes()),
        nontrivial: true,
        outcome: format!("{outcome}:{}", if must_reject { "must_reject" } else { "may_accept" }),
        fails,
        tags: c.tags,
        repr: json!({"form": c.form, "denotes": c.denotes, "admissible_by_reference_rule": c.admissible, "source": c.src}),
        counters: vec![(if must_reject { "must_reject".to_string() } else { "may_accept".to_string() }, 1), ("chain_cases".into(), 1), (stag, 1), (if outcome.starts_with('A') && !must_reject { "chain_accepted_and_judged".to_string() } else { "chain_other".to_string() }, 1)],
    }
}

impl Prop for C17 {
    fn id(&self) -> &'static str {
        "C17"
    }
    fn n_cases(&self, _tier: Tier) -> u64 {
        8 * NFORMS + n_chain()
    }
    fn chunk(&self, _t: Tier) -> u64 {
        64
    }
    fn run_case(&self, tier: Tier, idx: u64) -> CaseOut {
        if idx >= 8 * NFORMS {
            return run_chain(tier, idx - 8 * NFORMS);
        }
        let c = build(idx);
        let mut fails = vec![];
        let mut outcome = String::new();
        let backends: &[Backend] = if tier == Tier::Thorough { &[Backend::Vm, Backend::Wasm] } else { &[Backend::Vm] };
        for &b in backends {
            match full_run(b, &c.src, false, 2, &|_| vec![], false) {
                Ok(fr) => {
                    outcome.push('A');
                    if c.admissible == Some(false) {
                        fails.push(Fail { clause: format!("{}_private_member_referenced_from_outside", b.name()), detail: format!("{}: accepted, output {:?}", c.form, fr.out.first()) });
                    }
                    let got = fr.out.first().and_then(|o| o.first()).copied();
                    if got != Some(c.expected) && c.admissible != Some(false) {
                        fails.push(Fail { clause: format!("{}_reference_resolved_to_wrong_definition", b.name()), detail: format!("{}: output {got:?}, the path denotes the definition returning {}", c.form, c.expected) });
                    }
                }
                Err(RunErr::Compile(_)) => outcome.push('R'),
                Err(RunErr::Crash(m)) => {
                    outcome.push('P');
                    fails.push(Fail { clause: format!("{}_crash_{}", b.name(), crash_label(&m)), detail: format!("{}: {m}", c.form) });
                }
            }
        }
        let mut tags = vec![format!("form:{}", c.form), format!("admissible:{:?}", c.admissible)];
        if c.form.contains("re-export") {
            tags.push("via_reexport".into());
        }
        let bits = idx / NFORMS;
        if bits & 2 == 0 && bits & 4 != 0 {
            tags.push("private_module_public_member".into());
        }
        CaseOut {
            key: fnv(c.src.as_bytes()),
            nontrivial: true,
            outcome: format!("{outcome}:{:?}", c.admissible),
            fails,
            tags,
            repr: json!({"form": c.form, "admissible_by_reference_rule": c.admissible, "expected": c.expected, "source": c.src}),
            counters: vec![(if c.admissible == Some(false) { "must_reject".to_string() } else { "may_accept".to_string() }, 1)],
        }
    }
    fn describe_case(&self, _tier: Tier, idx: u64) -> (Value, Vec<String>) {
        if idx >= 8 * NFORMS {
            let c = build_chain(idx - 8 * NFORMS);
            return (json!({"form": c.form, "source": c.src}), c.tags);
        }
        let c = build(idx);
        (json!({"form": c.form, "source": c.src}), vec![format!("form:{}", c.form)])
    }
    fn describe(&self, _tier: Tier) -> Descr {
        Descr {
            rule: format!(
                "module tree `mod a {{ f, mod b {{ g }} }}` with all 8 combinations of `pub` on f, b, g x {NFORMS} reference forms (qualified paths, use, multi-import, wildcards, private and pub re-exports, chained and wildcard re-exports, module import then path, relative paths, references from root / sibling / child / parent, local let and root definition shadowing imports); every function returns a distinct constant. Reference rule computed by the harness: an entity is visible from module M iff it is `pub` or its parent module contains M; a path is admissible iff every entity on it is visible. Oracle: inadmissible => rejected; accepted => dsp returns the constant of the denoted definition; shadowing forms return the local value. Sibling modules are named a2 / a2x (string prefixes of each other and of `a`) on purpose. Quick: VM; thorough: VM and WASM."
            ),
            assumptions: vec!["rejecting an admissible reference is not a failure of this property".into()],
            bounds: json!({"module_depth": 2, "visibility_combinations": 8, "reference_forms": NFORMS}),
            shape: "E",
        }
    }
    fn vacuity(&self, _t: Tier, c: &BTreeMap<String, u64>) -> Vec<String> {
        ["must_reject", "may_accept"].iter().filter(|k| c.get(**k).copied().unwrap_or(0) == 0).map(|k| format!("no {k} case")).collect()
    }
}
