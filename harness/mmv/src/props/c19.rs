//! C19 — concurrent compilations do not interfere.
//! Shape S (stateless exploration of interleavings of the real code): K = 2 real OS threads run
//! "compile + run" jobs; exactly one runs at a time (baton); a thread can lose the baton only at a
//! scheduling point, and scheduling points (cfg(mimium_verif) hook H5) sit *before* every
//! acquisition of process-global shared state (the interner's `with_session_globals`, the macro
//! file environment variable, the diagnostics file cache).  Exploration is deviation-bounded:
//! bound 0 = the two serial orders, bound 1 = one preemption at every scheduling point of either
//! thread, bound 2 = a second preemption of the other thread at every one of its points
//! (thorough tier, on the shorter jobs).  Every schedule must give each job exactly its
//! solo result, without panic or deadlock.

use crate::engine::*;
use crate::pc::stream;
use crate::run::{Backend, RunErr, errs_to_strings, full_run};
use mimium_lang::verif_hooks;
use mimium_lang::{Config, ExecContext};
use serde_json::{Value, json};
use std::cell::Cell;
use std::collections::BTreeMap;
use std::sync::{Arc, Condvar, Mutex, OnceLock};
use std::time::Duration;

pub struct C19;

// ---------------------------------------------------------------- jobs

fn long_ident() -> String {
    format!("v{}", "q".repeat(64 * 1024))
}
pub fn job_source(j: usize) -> String {
    match j {
        0 | 1 => "fn cnt(p) {\n  self + p\n}\nfn dsp(x) {\n  cnt(x) + cnt(1.0)\n}\n".into(),
        2 => "fn cnt(p) {\n  self * 0.5 + p\n}\nfn helper(a, b) {\n  let f = |y| y * a + b\n  f(2.0)\n}\nfn dsp(x) {\n  cnt(x) + helper(x, 1.0)\n}\n".into(),
        3 => "fn dsp(x) {\n  let a = (1.0 + \n  cnt(\n}\n".into(),
        4 => "fn cnt(p) {\n  self + p\n}\nfn dsp(x) {\n  let t = (1.0, 2.0)\n  cnt(\"s\") + t\n}\n".into(),
        5 => "#stage(macro)\nfn dbl(a) {\n  `{ $a * 2.0 }\n}\nfn genpower(n) {\n  letrec aux = |n1, v| {\n    if (n1 > 0.0) {\n      `{ $(aux(n1 - 1.0, v)) * $v }\n    } else {\n      `1.0\n    }\n  }\n  `{ |v| $(aux(n, `v)) }\n}\n#stage(main)\nfn dsp(x) {\n  dbl!(`x) + genpower!(3.0)(x + 1.0)\n}\n".into(),
        6 => {
            let id = long_ident();
            format!("fn dsp(x) {{\n  let {id} = x + 1.0\n  {id} * 2.0\n}}\n")
        }
        8 => "#stage(macro)\nfn twice() {\n  `{ 2.0 }\n}\n#stage(main)\nfn nest(x) {\n  let (((a2, b2), (a1, b1)), (a0, b0)) = (((x, 2.0), (3.0, 4.0)), (5.0, 6.0))\n  a2 * 100000.0 + b2 * 10000.0 + a1 * 1000.0 + b1 * 100.0 + a0 * 10.0 + b0\n}\nfn dsp(x) {\n  nest(x) * twice!()\n}\n".into(),
        9 => "#stage(macro)\nfn thrice() {\n  `{ 3.0 }\n}\n#stage(main)\nfn flat(x) {\n  let (p0, q0) = (x, 2.0)\n  let (p1, q1) = (q0, p0)\n  p1 * 10.0 + q1\n}\nfn dsp(x) {\n  flat(x) * thrice!()\n}\n".into(),
        11 => format!("include(\"{}/c19_shared.mmm\")\nfn dsp(x) {{\n  shared_gain(x)\n}}\n", crate::incfiles::ensure().to_string_lossy()),
        12 => format!("include(\"{}/c19_shared.mmm\")\nfn dsp(x) {{\n  shared_gain(x) + inner_f3(x)\n}}\n", crate::incfiles::ensure().to_string_lossy()),
        // module-local type aliases of the same unqualified name in differently named modules (resolved through the
        // mangled-suffix fallback), with different meanings
        13 => "mod synth {\n  pub type alias Pair = (float, float)\n  pub fn mix(p: Pair) -> float {\n    p.0 + p.1\n  }\n}\nfn dsp(x) {\n  synth::mix((x, 2.0))\n}\n".into(),
        14 => "mod filt {\n  pub type alias Pair = (float, (float, float))\n  pub fn diff(p: Pair) -> float {\n    let (a, (b, c)) = p\n    a - b + c\n  }\n}\nfn dsp(x) {\n  filt::diff((5.0, (x, 1.0)))\n}\n".into(),
        10 => "use osc::sinwave\nuse math::*\nfn dsp(x) {\n  sinwave(440.0, 0.0) * 0.5 + x * PI()\n}\n".into(),
        _ => "type Dir = Up | Down | Left(float)\ntype alias Pt = {px:float, py:float}\nfn f(d: Dir) {\n  match d {\n    Up => 1.0,\n    Down => 2.0,\n    Left(v) => v\n  }\n}\nfn norm(p: Pt) {\n  p.px * p.px + p.py\n}\nfn dsp(x) {\n  f(Left(x)) + norm({px = x, py = 2.0}) + min(x, 1.0) + sqrt(abs(x))\n}\n".into(),
    }
}
pub const JOB_NAMES: [&str; 15] = ["counter", "counter_again", "shared_identifiers", "syntax_error", "type_error", "macro", "huge_identifier", "types_and_builtins", "macro_nested_tuple_let", "macro_flat_tuple_let", "library_modules", "include_shared_file", "include_shared_file_again", "module_type_alias_pair_a", "module_type_alias_pair_b"];
pub const NJOBS: usize = 15;

/// what a job observes: diagnostics or outputs (and the WASM module hash)
pub fn run_job(j: usize) -> String {
    let src = job_source(j);
    let r = catch(|| {
        let inp = |t: usize| vec![stream(0, t)];
        let vm = match full_run(Backend::Vm, &src, true, 4, &inp, false) {
            Ok(fr) => format!("out {:?}", fr.out),
            Err(RunErr::Compile(es)) => format!("diagnostics {es:?}"),
            Err(RunErr::Crash(m)) => format!("CRASH {m}"),
        };
        // also the WASM generator (no engine: wasmtime's own threads are not under the scheduler)
        let mut ctx = ExecContext::new([].into_iter(), Some("/verif-input.mmm".into()), Config::default());
        ctx.add_system_plugin(mimium_scheduler::get_default_scheduler_plugin());
        ctx.prepare_compiler();
        let wasm = match ctx.get_compiler().unwrap().emit_wasm(&src) {
            Ok(w) => format!("wasm {:x}", fnv(&w.bytes)),
            Err(es) => {
                // render the diagnostics the way the CLI does (takes the file cache lock)
                mimium_lang::utils::error::report(&src, "/verif-input.mmm".into(), &es);
                // the labels (file, span, text) are part of what the job obtains
                let labels: Vec<String> = es
                    .iter()
                    .flat_map(|e| catch(|| e.get_labels()).unwrap_or_default())
                    .map(|(l, m)| format!("{}:{}..{} {m}", l.path.display(), l.span.start, l.span.end))
                    .collect();
                format!("wasm-diagnostics {:?} labels {labels:?}", errs_to_strings(&es))
            }
        };
        format!("{vm} | {wasm}")
    });
    match r {
        Ok(s) => s,
        Err(m) => format!("PANIC {m}"),
    }
}

// ---------------------------------------------------------------- controlled scheduler

struct Sched {
    /// who holds the baton
    current: usize,
    finished: [bool; 2],
    /// preemption plan: (thread, point number) at which that thread yields to the other
    plan: Vec<(usize, u64)>,
    taken: Vec<bool>,
    /// points executed per thread
    points: [u64; 2],
    deadlock: bool,
    /// CPU-time clocks of the two job threads (to tell a blocked partner from a slow one)
    clocks: [Option<libc::clockid_t>; 2],
}
fn thread_cpu_ms(c: Option<libc::clockid_t>) -> u64 {
    let Some(c) = c else { return 0 };
    let mut ts = libc::timespec { tv_sec: 0, tv_nsec: 0 };
    if unsafe { libc::clock_gettime(c, &mut ts) } != 0 {
        return 0;
    }
    ts.tv_sec as u64 * 1000 + ts.tv_nsec as u64 / 1_000_000
}
struct Shared {
    m: Mutex<Sched>,
    cv: Condvar,
}
static SHARED: OnceLock<Arc<Shared>> = OnceLock::new();
thread_local! {
    static TID: Cell<usize> = const { Cell::new(usize::MAX) };
}
fn shared() -> &'static Arc<Shared> {
    SHARED.get_or_init(|| Arc::new(Shared { m: Mutex::new(Sched { current: 0, finished: [true, true], plan: vec![], taken: vec![], points: [0, 0], deadlock: false, clocks: [None, None] }), cv: Condvar::new() }))
}
fn hook(_kind: u32) {
    let t = TID.with(|c| c.get());
    if t == usize::MAX {
        return; // not a job thread
    }
    let sh = shared();
    let mut g = sh.m.lock().unwrap();
    g.points[t] += 1;
    let n = g.points[t];
    let other = 1 - t;
    if let Some(i) = (0..g.plan.len()).find(|&i| !g.taken[i] && g.plan[i] == (t, n)) {
        g.taken[i] = true;
        if !g.finished[other] {
            g.current = other;
            sh.cv.notify_all();
            // wait for the baton, with a horizon: a partner that has not consumed any CPU time for 20 s
            // (or has not handed the baton back within 10 min) is blocked, i.e. a deadlock; a partner that
            // is merely slow on a loaded machine keeps the wait alive
            let mut waited = 0;
            let mut total = 0;
            let mut last_cpu = thread_cpu_ms(g.clocks[other]);
            while g.current != t {
                let (g2, to) = sh.cv.wait_timeout(g, Duration::from_millis(500)).unwrap();
                g = g2;
                if to.timed_out() {
                    let cpu = thread_cpu_ms(g.clocks[other]);
                    total += 1;
                    if cpu > last_cpu {
                        waited = 0;
                        last_cpu = cpu;
                    } else {
                        waited += 1;
                    }
                    if waited > 40 || total > 1200 {
                        g.deadlock = true;
                        g.current = t;
                    }
                }
            }
        }
    }
}
#[derive(serde::Serialize, serde::Deserialize)]
pub struct ExecResult {
    pub obs: [String; 2],
    pub points: [u64; 2],
    pub deadlock: bool,
    pub preemptions_taken: usize,
}
/// Run one schedule in a forked copy of this process. Every execution then starts from exactly the same process
/// state (interner contents, node ids, allocator state, HashMap seeds - see main.rs getrandom), which the parent
/// never changes after its warm-up; the same schedule therefore gives the same execution, point for point, and a
/// crash or a sanitizer abort of one schedule is contained in its child.
pub fn execute(ja: usize, jb: usize, first: usize, plan: Vec<(usize, u64)>) -> ExecResult {
    use std::io::Read;
    use std::os::fd::FromRawFd;
    let mut fds = [0i32; 2];
    if unsafe { libc::pipe(fds.as_mut_ptr()) } != 0 {
        panic!("pipe failed");
    }
    let pid = unsafe { libc::fork() };
    if pid < 0 {
        panic!("fork failed");
    }
    if pid == 0 {
        unsafe { libc::close(fds[0]) };
        let r = execute_inproc(ja, jb, first, plan);
        let bytes = serde_json::to_vec(&r).unwrap_or_default();
        let mut off = 0;
        while off < bytes.len() {
            let n = unsafe { libc::write(fds[1], bytes[off..].as_ptr() as *const libc::c_void, bytes.len() - off) };
            if n <= 0 {
                break;
            }
            off += n as usize;
        }
        unsafe { libc::_exit(0) };
    }
    unsafe { libc::close(fds[1]) };
    let mut f = unsafe { std::fs::File::from_raw_fd(fds[0]) };
    let mut buf = vec![];
    let _ = f.read_to_end(&mut buf);
    let mut st = 0i32;
    unsafe { libc::waitpid(pid, &mut st, 0) };
    match serde_json::from_slice::<ExecResult>(&buf) {
        Ok(r) if libc::WIFEXITED(st) && libc::WEXITSTATUS(st) == 0 => r,
        _ => {
            let what = if libc::WIFSIGNALED(st) { format!("PROCESS CRASH signal {}", libc::WTERMSIG(st)) } else { format!("PROCESS CRASH wait status {st}") };
            ExecResult { obs: [what.clone(), what], points: [0, 0], deadlock: false, preemptions_taken: 0 }
        }
    }
}
/// run jobs (ja, jb) on two threads under `plan`; `first` gets the baton first
pub fn execute_inproc(ja: usize, jb: usize, first: usize, plan: Vec<(usize, u64)>) -> ExecResult {
    verif_hooks::set_sched_hook(Some(hook));
    let sh = shared().clone();
    {
        let mut g = sh.m.lock().unwrap();
        *g = Sched { current: first, finished: [false, false], taken: vec![false; plan.len()], plan, points: [0, 0], deadlock: false, clocks: [None, None] };
    }
    let jobs = [ja, jb];
    let hs: Vec<_> = (0..2)
        .map(|t| {
            let sh = sh.clone();
            let j = jobs[t];
            std::thread::Builder::new()
                .stack_size(64 << 20)
                .spawn(move || {
                    quiet_panics();
                    TID.with(|c| c.set(t));
                    {
                        let mut g = sh.m.lock().unwrap();
                        let mut cid: libc::clockid_t = 0;
                        if unsafe { libc::pthread_getcpuclockid(libc::pthread_self(), &mut cid) } == 0 {
                            g.clocks[t] = Some(cid);
                        }
                        while g.current != t {
                            g = sh.cv.wait(g).unwrap();
                        }
                    }
                    let o = run_job(j);
                    TID.with(|c| c.set(usize::MAX));
                    let mut g = sh.m.lock().unwrap();
                    g.finished[t] = true;
                    g.current = 1 - t;
                    sh.cv.notify_all();
                    o
                })
                .unwrap()
        })
        .collect();
    let mut obs = [String::new(), String::new()];
    for (t, h) in hs.into_iter().enumerate() {
        obs[t] = h.join().unwrap_or_else(|_| "THREAD PANIC".into());
    }
    let g = sh.m.lock().unwrap();
    ExecResult { obs, points: g.points, deadlock: g.deadlock, preemptions_taken: g.taken.iter().filter(|x| **x).count() }
}

// ---------------------------------------------------------------- space

/// solo observation and number of scheduling points of every job (deterministic, measured per process)
pub fn solo() -> &'static Vec<(String, u64)> {
    static S: OnceLock<Vec<(String, u64)>> = OnceLock::new();
    S.get_or_init(|| {
        // warm-up in this process: the first compilation interns the builtin names, and every job's own names are
        // interned too, so that the frozen state every schedule is forked from does not depend on the job pair
        for j in 0..NJOBS {
            let _ = execute_inproc(j, 0, 0, vec![]);
        }
        (0..NJOBS)
            .map(|j| {
                let r = execute(j, 0, 0, vec![]);
                (r.obs[0].clone(), r.points[0])
            })
            .collect()
    })
}
const CHUNK_POINTS: u64 = 64;
struct Layout {
    /// (ja, jb, preempted thread, first point, last point exclusive); preempted = 2 means "bound 0 only"
    items: Vec<(usize, usize, usize, u64, u64)>,
}
fn pairs(tier: Tier) -> Vec<(usize, usize)> {
    let mut v = vec![];
    for a in 0..NJOBS {
        for b in a..NJOBS {
            // quick: every job against the counter job, neighbours in the menu, and the library job against itself;
            // the long staging / library jobs are paired with the counter job only in the thorough tier
            if tier == Tier::Quick && (!(a == 0 || b == a + 1 || (a, b) == (10, 10)) || [(0, 5), (0, 8), (0, 9), (9, 10), (0, 11), (0, 12), (10, 11), (0, 13), (0, 14), (12, 13)].contains(&(a, b))) {
                continue;
            }
            v.push((a, b));
        }
    }
    v
}
/// distance between the preemption points tried for a job pair: 1 in the thorough tier; in the quick tier 16, or more
/// for long jobs so that a pair contributes at most ~2400 schedules
fn stride_for(tier: Tier, ja: usize, jb: usize) -> u64 {
    if tier != Tier::Quick {
        return 1;
    }
    let s = solo();
    16u64.max((s[ja].1 + s[jb].1).div_ceil(2400))
}
fn layout(tier: Tier) -> &'static Layout {
    static Q: OnceLock<Layout> = OnceLock::new();
    static T: OnceLock<Layout> = OnceLock::new();
    let cell = if tier == Tier::Quick { &Q } else { &T };
    cell.get_or_init(|| {
        let s = solo();
        let mut items = vec![];
        for (a, b) in pairs(tier) {
            let stride = stride_for(tier, a, b);
            items.push((a, b, 2, 0, 0));
            for t in 0..2 {
                let n = s[[a, b][t]].1;
                let mut p = 1;
                while p <= n {
                    items.push((a, b, t, p, (p + CHUNK_POINTS * stride).min(n + 1)));
                    p += CHUNK_POINTS * stride;
                }
            }
        }
        Layout { items }
    })
}

impl Prop for C19 {
    fn id(&self) -> &'static str {
        "C19"
    }
    fn n_cases(&self, tier: Tier) -> u64 {
        layout(tier).items.len() as u64
    }
    fn chunk(&self, _t: Tier) -> u64 {
        4
    }
    fn recycle_after(&self) -> u64 {
        64
    }
    fn case_cap_ms(&self) -> u64 {
        300_000
    }
    fn run_case(&self, tier: Tier, idx: u64) -> CaseOut {
        let (ja, jb, pt, lo, hi) = layout(tier).items[idx as usize];
        let s = solo();
        let expect = [s[ja].0.clone(), s[jb].0.clone()];
        let stride = stride_for(tier, ja, jb);
        let mut fails: Vec<Fail> = vec![];
        let mut schedules = 0u64;
        let mut bound2 = 0u64;
        let mut transitions = 0u64;
        let mut outcomes_seen: std::collections::BTreeSet<String> = Default::default();
        let mut check = |plan: Vec<(usize, u64)>, first: usize, fails: &mut Vec<Fail>| {
            let r = execute(ja, jb, first, plan.clone());
            schedules += 1;
            transitions += r.points[0] + r.points[1];
            let label = format!("jobs ({},{}) first={first} preemptions={plan:?}", JOB_NAMES[ja], JOB_NAMES[jb]);
            if r.deadlock {
                fails.push(Fail { clause: "deadlock".into(), detail: label.clone() });
            }
            for t in 0..2 {
                if r.obs[t] != expect[t] {
                    let kind = if r.obs[t].contains("PANIC") || r.obs[t].contains("CRASH") { "panic_under_interleaving" } else { "result_differs_from_solo_run" };
                    fails.push(Fail { clause: kind.into(), detail: format!("{label}: thread {t} got {:?}, alone it gets {:?}", r.obs[t].chars().take(300).collect::<String>(), expect[t].chars().take(300).collect::<String>()) });
                }
            }
            // replaying the same schedule must reproduce the same point counts (the machinery owns every choice)
            outcomes_seen.insert(format!("{:?}", r.points));
            r
        };
        if pt == 2 {
            // bound 0: the two serial orders
            check(vec![], 0, &mut fails);
            check(vec![], 1, &mut fails);
            // determinism of the harness: the same schedule twice
            let r1 = execute(ja, jb, 0, vec![(0, 5)]);
            let r2 = execute(ja, jb, 0, vec![(0, 5)]);
            // The observations and the numbers of scheduling points must replay exactly: the harness owns the scheduler
            // and the HashMap seeds (VERIF_DET_RANDOM, main.rs getrandom), so nothing else may vary.
            if std::env::var("VERIF_DET_RANDOM").is_err() {
                fails.push(Fail { clause: "harness_panic".into(), detail: "VERIF_DET_RANDOM is not set: schedules would not be reproducible (run through ./check)".into() });
            }
            if r1.obs != r2.obs || r1.points != r2.points {
                fails.push(Fail { clause: "harness_panic".into(), detail: format!("schedule replay diverged: {:?}/{:?}", r1.points, r2.points) });
            }
        } else {
            // bound 1: preempt thread `pt` (which starts) at each of its points lo..hi (stride in quick tier)
            let mut p = lo;
            while p < hi {
                let r = check(vec![(pt, p)], pt, &mut fails);
                // bound 2 (short jobs): after the switch, preempt the other thread too, at a sparse set of its points -
                // the first thread then runs to its end before the second one resumes (A starts, B runs a part, A
                // finishes, B finishes). Thorough: every 16th first point x every 97th second point; quick: every
                // 8th explored first point x 24 second points.
                let short = s[ja].1.max(s[jb].1) < 8000;
                let first_selected = if tier == Tier::Thorough { p % 16 == 1 } else { ((p - 1) / stride) % 8 == 0 };
                if short && first_selected {
                    let other = 1 - pt;
                    let n_other = r.points[other];
                    let qstep = if tier == Tier::Thorough { 97 } else { (n_other / 24).max(97) };
                    let mut q = 1;
                    while q <= n_other {
                        check(vec![(pt, p), (other, q)], pt, &mut fails);
                        bound2 += 1;
                        q += qstep;
                    }
                }
                p += stride;
                if fails.len() > 6 {
                    break;
                }
            }
        }
        fails.sort_by(|a, b| a.clause.cmp(&b.clause));
        fails.dedup_by(|a, b| a.clause == b.clause);
        CaseOut {
            key: idx,
            nontrivial: true,
            outcome: if fails.is_empty() { "isolated".into() } else { "interference".into() },
            fails,
            tags: vec![format!("jobs:{}+{}", JOB_NAMES[ja], JOB_NAMES[jb])],
            repr: json!({"jobs": [JOB_NAMES[ja], JOB_NAMES[jb]], "preempted_thread": pt, "points": [lo, hi], "solo_points": [s[ja].1, s[jb].1]}),
            counters: vec![("states".into(), schedules), ("transitions".into(), transitions), ("traces".into(), schedules), (format!("bound_{}", if pt == 2 { 0 } else { 1 }), schedules - bound2), ("bound_2".into(), bound2)],
        }
    }
    fn min_outcomes(&self) -> usize {
        1
    }
    fn describe_case(&self, tier: Tier, idx: u64) -> (Value, Vec<String>) {
        let (ja, jb, pt, lo, hi) = layout(tier).items[idx as usize];
        (json!({"jobs": [JOB_NAMES[ja], JOB_NAMES[jb]], "preempted_thread": pt, "points": [lo, hi]}), vec![])
    }
    fn crash_clause(&self) -> &'static str {
        "process_crash_or_hang_under_interleaving"
    }
    fn describe(&self, tier: Tier) -> Descr {
        let s = solo();
        Descr {
            rule: format!(
                "K = 2 threads each run one job 'compile with ExecContext + run 4 samples on the VM + emit WASM (+ render diagnostics)' from a menu of {NJOBS} sources built to collide (identical sources, shared identifiers, a syntax error, a type error, a macro program (stage-0 VM + MIMIUM_CURRENT_MACRO_FILE), a 64 KiB identifier that forces the interner buffer to grow, types/enums/builtins, two macro programs whose main-stage code goes through the staging translation with a nested resp. flat tuple let, a program that imports library modules from files (`use osc::sinwave`, `use math::*`, found through MIMIUM_LIB_PATH = the repository's lib directory), two programs that `include` the same file, which in turn includes a 40-function file, two programs whose differently named modules each declare a type alias `Pair` with another meaning and use it unqualified); job pairs: {:?}. Scheduling points measured per job (solo): {:?}. A hand-rolled baton scheduler lets a thread lose control only at a scheduling point placed before every with_session_globals / env-var / file-cache access. Explored: bound 0 (both serial orders); bound 1: one preemption at every {}scheduling point of either thread; bound 2 on job pairs under 8000 points each (the first thread is preempted, the second runs a part, the first finishes, the second finishes): thorough at every 97th point of the second thread for every 16th first point, quick at 24 points of the second thread for every 8th explored first point. Each schedule: both jobs' observations must equal their solo observations; a silent partner for 20 s is a deadlock. states/traces = schedules executed; transitions = scheduling points passed.",
                pairs(tier).iter().map(|(a, b)| format!("{}+{}", JOB_NAMES[*a], JOB_NAMES[*b])).collect::<Vec<_>>(),
                s.iter().map(|x| x.1).collect::<Vec<_>>(),
                if tier == Tier::Quick { "s-th (s = 16, or more for long jobs so that a pair has at most ~2400 schedules; per-pair values in bounds.stride_per_pair) " } else { "" }
            ),
            assumptions: vec![
                "interleavings are sequentially consistent at hook granularity; accesses to shared state that bypass the hooked entry points (none found by reading: the interner mutex, the TypeVar RwLocks owned by one compilation, the file cache, the macro-file env var) would be invisible".into(),
                "unsynchronised memory effects (e.g. a &str from Symbol::as_str outliving a reallocation of the interner buffer) are not detectable by a cooperative scheduler unless they change an observation; no sanitizer pass is part of this check".into(),
                "scheduling points are numbered per thread; every schedule runs in a fork of the same warmed-up worker process with the HashMap seeds fixed by the harness (getrandom is interposed), so a schedule (job pair, first thread, preemption points) identifies one execution exactly: the determinism probe replays one schedule and requires identical observations and identical point counts".into(),
                "wasmtime is not run inside jobs (its own worker threads are outside the scheduler); the WASM generator is".into(),
            ],
            bounds: json!({"threads": 2, "preemption_bound_complete": if tier == Tier::Quick { "1 at every s-th point (stride_per_pair)" } else { "1" }, "stride_per_pair": pairs(tier).iter().map(|&(a, b)| format!("{}+{}:{}", JOB_NAMES[a], JOB_NAMES[b], stride_for(tier, a, b))).collect::<Vec<_>>(), "jobs": NJOBS, "points_per_job": s.iter().map(|x| x.1).collect::<Vec<_>>()}),
            shape: "S",
        }
    }
    fn vacuity(&self, _t: Tier, c: &BTreeMap<String, u64>) -> Vec<String> {
        let mut v = vec![];
        if c.get("bound_1").copied().unwrap_or(0) < 10 {
            v.push("fewer than 10 single-preemption schedules executed".into());
        }
        if c.get("transitions").copied().unwrap_or(0) == 0 {
            v.push("no scheduling point was ever passed (hooks not compiled in?)".into());
        }
        v
    }
}
