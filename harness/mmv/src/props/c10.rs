//! C10 — hygiene: consistently renaming a binder inside a macro body must not change the meaning
//! of any program that uses the macro.  Metamorphic: original vs alpha-renamed macro.

use crate::engine::*;
use crate::pc::*;
use crate::run::{Backend, RunErr, bits_eq, full_run};
use serde_json::{Value, json};
use std::collections::BTreeMap;

pub struct C10;

/// macro bodies with binder placeholders @B@ (first binder) and @C@ (second binder)
const MACROS: [(&str, &str); 11] = [
    ("fn m(e) {\n  `{\n    let @B@ = 10.0\n    $e + @B@\n  }\n}\n", "let binder"),
    ("fn m(e) {\n  `{\n    let f = |@B@| $e + @B@\n    f(10.0)\n  }\n}\n", "lambda parameter"),
    ("fn m(e) {\n  `{\n    let (@B@, @C@) = (10.0, 20.0)\n    $e + @B@ + @C@\n  }\n}\n", "tuple pattern"),
    ("fn m(e) {\n  `{\n    letrec @B@ = |n| if (n > 0.0) @B@(n - 1.0) else 10.0\n    $e + @B@(2.0)\n  }\n}\n", "letrec binder"),
    ("fn m(e) {\n  let @B@ = `(100.0)\n  `{\n    $e + $@B@\n  }\n}\n", "macro-stage let binder"),
    ("fn m(e) {\n  `{\n    $e\n    let @B@ = 10.0\n    $e + @B@\n  }\n}\n", "let binder after an expression statement"),
    ("fn m(e) {\n  `{\n    let first = $e\n    let @B@ = 10.0\n    let @C@ = first + @B@\n    @C@\n  }\n}\n", "several let binders in sequence"),
    ("fn m(e) {\n  `{\n    let @B@ = 10.0\n    let inner = {\n      let @C@ = $e\n      @C@ + @B@\n    }\n    inner\n  }\n}\n", "nested binders around the splice"),
    // the wrapper idiom: the initialiser of a (non-recursive) let-bound lambda calls the outer function w; when the
    // binder is itself named w it shadows w only after the let
    ("fn m(e) {\n  `{\n    let @B@ = |n| if (n > 0.5) w(n - 1.0) + 1.0 else $e\n    @B@(3.0)\n  }\n}\n", "lambda-let whose initialiser calls an outer function"),
    // a quoted recursive function whose only recursive reference is produced by a helper macro that receives the quoted
    // name of the function (an escape containing a nested quotation), and the same with a direct reference next to it
    ("fn m(e) {\n  `{\n    letrec @B@ = |k| { if (k > 0.0) { step!(`@B@, `k) } else { $e } }\n    @B@(3.0)\n  }\n}\n", "letrec whose recursive reference is passed quoted to a helper macro"),
    ("fn m(e) {\n  `{\n    letrec @B@ = |k| { if (k > 0.0) { $(step(`@B@, `k)) + 0.0 } else { $e } }\n    let @C@ = @B@(2.0)\n    @C@\n  }\n}\n", "letrec whose recursive reference sits in a spliced helper call"),
];
/// argument expressions (stage-1 code) mentioning every interesting name
const ARGS: [&str; 9] = ["`t", "`u", "`(t + u)", "`x", "`e", "`g", "`1.0", "`f", "`inner"];
/// use sites: the macro call is placed in scopes binding the same names
const SITES: [(&str, &str); 4] = [
    ("fn dsp(x) {\n  let t = 1.0\n  let u = 2.0\n  let e = 3.0\n  let f = 4.0\n  let inner = 5.0\n  m!(@A@)\n}\n", "call is the result"),
    ("fn dsp(x) {\n  let t = 1.0\n  let u = 2.0\n  let e = 3.0\n  let f = 4.0\n  let inner = 5.0\n  let r = m!(@A@)\n  r + t * 1000.0 + u * 10000.0\n}\n", "surrounding code uses t and u after the expansion"),
    ("fn dsp(x) {\n  let t = 1.0\n  let u = 2.0\n  let e = 3.0\n  let f = 4.0\n  let inner = 5.0\n  let h = |t| m!(@A@)\n  h(7.0)\n}\n", "call inside a lambda binding t"),
    ("fn dsp(x) {\n  let t = 1.0\n  let u = 2.0\n  let e = 3.0\n  let f = 4.0\n  let inner = 5.0\n  m!(@A@) + m!(@A@)\n}\n", "two expansions"),
];
/// names the binders are given: the original colliding names and fresh ones
const BINDERS: [(&str, &str); 4] = [("t", "u"), ("e", "x"), ("g", "inner"), ("w", "w2")];
const FRESH: (&str, &str) = ("zq9", "zq8");

fn program(mi: usize, b: (&str, &str), ai: usize, si: usize) -> String {
    format!("fn w(x) {{\n  x * 10.0\n}}\n#stage(macro)\nfn step(f, k) {{\n  `{{ ($f)($k - 1.0) + $k }}\n}}\n{}#stage(main)\nlet g = 50.0\n{}", MACROS[mi].0.replace("@B@", b.0).replace("@C@", b.1), SITES[si].0.replace("@A@", ARGS[ai]))
}
// ---------------------------------------------------------------- macros defined inside a module
// The macro lives in `mod m` (or in `mod m { mod n { .. } }`), next to members whose names the binders of its quoted
// code are then given: a sibling function, the macro itself, the module, a root-level function, dsp.
const MOD_BODIES: [(&str, &str); 6] = [
    ("`{\n      let @B@ = |a| a * 2.0\n      @B@($e)\n    }", "let-bound function"),
    ("`{\n      let @B@ = 10.0\n      $e + @B@\n    }", "let-bound number"),
    ("`{\n      let f = |@B@| $e + @B@\n      f(10.0)\n    }", "lambda parameter"),
    ("`{\n      letrec @B@ = |n| if (n > 0.0) @B@(n - 1.0) else 10.0\n      $e + @B@(2.0)\n    }", "letrec binder"),
    ("`{\n      let (@B@, other) = (10.0, 20.0)\n      $e + @B@ + other\n    }", "tuple pattern"),
    ("`{\n      let first = $e\n      let @B@ = |a| a + first\n      @B@(1.0) + scale(0.0)\n    }", "let-bound function next to a use of the sibling member"),
];
const MOD_NAMES: [&str; 6] = ["scale", "mk", "m", "w", "dsp", "up"];
const MOD_ARGS: [&str; 3] = ["`x", "`1.0", "`(w(x))"];
fn n_mod() -> u64 {
    (MOD_BODIES.len() * MOD_NAMES.len() * MOD_ARGS.len() * 2) as u64
}
fn mod_program(bi: usize, name: &str, ai: usize, nested: bool) -> String {
    let body = MOD_BODIES[bi].0.replace("@B@", name);
    if nested {
        // `up` is a member of the parent module m, `scale` of the macro's own module n
        format!(
            "fn w(x) {{\n  x * 10.0\n}}\nmod m {{\n  pub fn up(a) {{\n    a * 1000.0\n  }}\n  pub mod n {{\n    pub fn scale(a) {{\n      a * 100.0\n    }}\n    #stage(macro)\n    pub fn mk(e) {{\n    {body}\n    }}\n  }}\n}}\nfn dsp(x) {{\n  m::n::mk!({}) + m::n::scale(0.0) + m::up(0.0)\n}}\n",
            MOD_ARGS[ai]
        )
    } else {
        format!(
            "fn w(x) {{\n  x * 10.0\n}}\nmod m {{\n  pub fn up(a) {{\n    a * 1000.0\n  }}\n  pub fn scale(a) {{\n    a * 100.0\n  }}\n  #stage(macro)\n  pub fn mk(e) {{\n    {body}\n  }}\n}}\nfn dsp(x) {{\n  m::mk!({}) + m::scale(0.0) + m::up(0.0)\n}}\n",
            MOD_ARGS[ai]
        )
    }
}
fn mod_decode(k: u64) -> (usize, usize, usize, bool) {
    let mut i = k;
    let nested = i % 2 == 1;
    i /= 2;
    let ni = (i % MOD_NAMES.len() as u64) as usize;
    i /= MOD_NAMES.len() as u64;
    let ai = (i % MOD_ARGS.len() as u64) as usize;
    i /= MOD_ARGS.len() as u64;
    (i as usize, ni, ai, nested)
}
fn compare(tier: Tier, orig: &str, renamed: &str, what: &str, fails: &mut Vec<Fail>) -> (String, bool) {
    let mut outcome = "same".to_string();
    let mut ran = false;
    let backends: &[Backend] = if tier == Tier::Thorough { &[Backend::Vm, Backend::Wasm] } else { &[Backend::Vm] };
    for &b in backends {
        let inp = |t: usize| vec![stream(0, t)];
        let a = full_run(b, orig, false, 4, &inp, false).map(|f| f.out);
        let c = full_run(b, renamed, false, 4, &inp, false).map(|f| f.out);
        match (&a, &c) {
            (Ok(x), Ok(y)) => {
                ran = true;
                if let Some((_, d)) = first_diff(x, y, bits_eq) {
                    outcome = "differs".into();
                    fails.push(Fail { clause: format!("{}_meaning_changed_by_renaming_macro_binder", b.name()), detail: format!("{what}: {d} (original vs renamed)") });
                }
            }
            (Err(RunErr::Compile(_)), Err(RunErr::Compile(_))) => outcome = "both_rejected".into(),
            (Err(RunErr::Crash(_)), Err(RunErr::Crash(_))) => outcome = "both_crash".into(),
            _ => {
                outcome = "differs".into();
                let lab = |r: &Result<Vec<Vec<f64>>, RunErr>| match r {
                    Ok(_) => "runs".to_string(),
                    Err(RunErr::Compile(e)) => format!("rejected ({})", e.join(" | ").chars().take(120).collect::<String>()),
                    Err(RunErr::Crash(m)) => format!("crashes ({})", m.chars().take(120).collect::<String>()),
                };
                fails.push(Fail { clause: format!("{}_acceptance_changed_by_renaming_macro_binder", b.name()), detail: format!("{what}: original {} / renamed {}", lab(&a), lab(&c)) });
            }
        }
    }
    (outcome, ran)
}
fn run_mod_case(tier: Tier, k: u64) -> CaseOut {
    let (bi, ni, ai, nested) = mod_decode(k);
    if MOD_BODIES[bi].0.replace("@B@", "").contains(&format!("{}(", MOD_NAMES[ni])) {
        // the body itself uses the name freely: binding it there is a genuine shadowing, not an alpha-variant
        return CaseOut { key: k, nontrivial: false, outcome: "not_an_alpha_variant".into(), ..Default::default() };
    }
    let orig = mod_program(bi, MOD_NAMES[ni], ai, nested);
    let renamed = mod_program(bi, FRESH.0, ai, nested);
    let what = format!("macro in {} with a {} named `{}`, argument {}", if nested { "m::n" } else { "m" }, MOD_BODIES[bi].1, MOD_NAMES[ni], MOD_ARGS[ai]);
    let mut fails = vec![];
    let (outcome, ran) = compare(tier, &orig, &renamed, &what, &mut fails);
    let mut tags = vec!["macro_in_module".to_string(), format!("macro:{}", MOD_BODIES[bi].1), format!("binder_named:{}", MOD_NAMES[ni])];
    if nested {
        tags.push("macro_in_nested_module".into());
    }
    if MOD_ARGS[ai].contains(MOD_NAMES[ni]) {
        tags.push("argument_mentions_a_name_bound_in_the_macro_body".into());
    }
    CaseOut { key: fnv(orig.as_bytes()), nontrivial: ran, outcome, fails, tags, repr: json!({"what": what, "original_source": orig, "renamed_source": renamed}), counters: vec![("macro_in_module".into(), 1)] }
}

fn decode(idx: u64) -> (usize, usize, usize, usize) {
    let mut i = idx;
    let bi = (i % BINDERS.len() as u64) as usize;
    i /= BINDERS.len() as u64;
    let si = (i % SITES.len() as u64) as usize;
    i /= SITES.len() as u64;
    let ai = (i % ARGS.len() as u64) as usize;
    i /= ARGS.len() as u64;
    (i as usize, bi, ai, si)
}

fn n_plain() -> u64 {
    (MACROS.len() * BINDERS.len() * ARGS.len() * SITES.len()) as u64
}
impl Prop for C10 {
    fn id(&self) -> &'static str {
        "C10"
    }
    fn n_cases(&self, _tier: Tier) -> u64 {
        n_plain() + n_mod()
    }
    fn chunk(&self, _t: Tier) -> u64 {
        16
    }
    fn run_case(&self, tier: Tier, idx: u64) -> CaseOut {
        if idx >= n_plain() {
            return run_mod_case(tier, idx - n_plain());
        }
        let (mi, bi, ai, si) = decode(idx);
        if mi == 4 && bi == 1 {
            // a macro-stage `let e` would genuinely shadow the macro's own parameter: not an alpha-variant
            return CaseOut { key: idx, nontrivial: false, outcome: "not_an_alpha_variant".into(), ..Default::default() };
        }
        let orig = program(mi, BINDERS[bi], ai, si);
        let renamed = program(mi, FRESH, ai, si);
        let mut fails = vec![];
        let mut outcome = "same".to_string();
        let backends: &[Backend] = if tier == Tier::Thorough { &[Backend::Vm, Backend::Wasm] } else { &[Backend::Vm] };
        let mut ran = false;
        // does the spliced argument mention a name that the macro body binds?
        let arg_names: Vec<&str> = ARGS[ai].trim_matches(|c| c == '`' || c == '(' || c == ')').split(|c: char| !c.is_alphanumeric()).filter(|s| !s.is_empty()).collect();
        let body_binds = |n: &str| -> bool {
            let body = MACROS[mi].0.replace("@B@", BINDERS[bi].0).replace("@C@", BINDERS[bi].1);
            body.contains(&format!("let {n} ")) || body.contains(&format!("|{n}|")) || body.contains(&format!("({n}, ")) || body.contains(&format!(", {n})")) || body.contains(&format!("letrec {n} ")) || body.contains(&format!("|k| {{ if (k > 0.0)")) && n == "k"
        };
        let mut tags = vec![format!("macro:{}", MACROS[mi].1), format!("site:{}", SITES[si].1)];
        if bi == 1 {
            tags.push("stage1_binder_named_like_the_macro_parameter".into());
        }
        if arg_names.iter().any(|n| body_binds(n)) {
            tags.push("argument_mentions_a_name_bound_in_the_macro_body".into());
        }
        for &b in backends {
            let inp = |t: usize| vec![stream(0, t)];
            let a = full_run(b, &orig, false, 4, &inp, false).map(|f| f.out);
            let c = full_run(b, &renamed, false, 4, &inp, false).map(|f| f.out);
            match (&a, &c) {
                (Ok(x), Ok(y)) => {
                    ran = true;
                    if let Some((_, d)) = first_diff(x, y, bits_eq) {
                        outcome = "differs".into();
                        fails.push(Fail { clause: format!("{}_meaning_changed_by_renaming_macro_binder", b.name()), detail: format!("binders {:?} vs {:?}: {d} (original vs renamed)", BINDERS[bi], FRESH) });
                    }
                }
                (Err(RunErr::Compile(_)), Err(RunErr::Compile(_))) => outcome = "both_rejected".into(),
                (Err(RunErr::Crash(_)), Err(RunErr::Crash(_))) => outcome = "both_crash".into(),
                _ => {
                    outcome = "differs".into();
                    let lab = |r: &Result<Vec<Vec<f64>>, RunErr>| match r {
                        Ok(_) => "runs".to_string(),
                        Err(RunErr::Compile(e)) => format!("rejected ({})", e.join(" | ").chars().take(120).collect::<String>()),
                        Err(RunErr::Crash(m)) => format!("crashes ({})", m.chars().take(120).collect::<String>()),
                    };
                    fails.push(Fail { clause: format!("{}_acceptance_changed_by_renaming_macro_binder", b.name()), detail: format!("original {} / renamed {}", lab(&a), lab(&c)) });
                }
            }
        }
        CaseOut {
            key: fnv(orig.as_bytes()),
            nontrivial: ran,
            outcome,
            fails,
            tags,
            repr: json!({"macro": MACROS[mi].1, "binders": [BINDERS[bi].0, BINDERS[bi].1], "argument": ARGS[ai], "site": SITES[si].1, "original_source": orig, "renamed_source": renamed}),
            counters: vec![(format!("macro_{mi}"), 1)],
        }
    }
    fn describe_case(&self, _tier: Tier, idx: u64) -> (Value, Vec<String>) {
        if idx >= n_plain() {
            let (bi, ni, ai, nested) = mod_decode(idx - n_plain());
            return (json!({"original_source": mod_program(bi, MOD_NAMES[ni], ai, nested)}), vec!["macro_in_module".into()]);
        }
        let (mi, bi, ai, si) = decode(idx);
        (json!({"original_source": program(mi, BINDERS[bi], ai, si)}), vec![])
    }
    fn describe(&self, _tier: Tier) -> Descr {
        Descr {
            rule: format!(
                "{} macro bodies (binder kinds: let, lambda parameter, tuple pattern, letrec, macro-stage let, nested binders around the splice) x {} binder namings x {} spliced argument expressions mentioning every name in play (the binder names, the macro's parameter name, a global, dsp's parameter, a literal) x {} use sites binding the same names around the expansion; each program is compared with the same program whose macro binders are renamed to fresh names: same accept/reject and bit-identical outputs for 4 samples (quick: VM; thorough: VM and WASM). non-trivial = both variants ran.",
                MACROS.len(),
                BINDERS.len(),
                ARGS.len(),
                SITES.len()
            ),
            assumptions: vec!["metamorphic oracle: no expected values are written down".into()],
            bounds: json!({"macros": MACROS.len(), "arguments": ARGS.len(), "sites": SITES.len(), "binder_namings": BINDERS.len()}),
            shape: "E",
        }
    }
    fn vacuity(&self, _t: Tier, c: &BTreeMap<String, u64>) -> Vec<String> {
        (0..MACROS.len()).filter(|i| c.get(&format!("macro_{i}")).copied().unwrap_or(0) == 0).map(|i| format!("macro {i} unused")).collect()
    }
}
