//! C02 — core-language semantics: VM output stream == reference interpreter's, for every program
//! of the Σ families below the operation bound, every input stream, every sample index.

use crate::engine::*;
use crate::lang::EvalErr;
use crate::pc::*;
use crate::run::{Backend, RunErr, num_eq};
use serde_json::{Value, json};
use std::collections::BTreeMap;
use std::sync::OnceLock;

pub struct C02;

fn space(tier: Tier) -> &'static Space {
    static Q: OnceLock<Space> = OnceLock::new();
    static T: OnceLock<Space> = OnceLock::new();
    match tier {
        Tier::Quick => Q.get_or_init(|| Space::new(&[("FX", 0), ("FP", 0), ("FS", 2), ("FC", 3), ("FA", 3)])),
        Tier::Thorough => T.get_or_init(|| Space::new(&[("FX", 0), ("FP", 0), ("FS", 3), ("FC", 4), ("FA", 4)])),
    }
}
fn params(tier: Tier) -> (usize, &'static [usize]) {
    match tier {
        Tier::Quick => (12, &[0, 1]),
        Tier::Thorough => (32, &[0, 1, 2, 3]),
    }
}

impl Prop for C02 {
    fn id(&self) -> &'static str {
        "C02"
    }
    fn n_cases(&self, tier: Tier) -> u64 {
        space(tier).n()
    }
    fn chunk(&self, _t: Tier) -> u64 {
        500
    }
    fn recycle_after(&self) -> u64 {
        50_000
    }
    fn run_case(&self, tier: Tier, idx: u64) -> CaseOut {
        let (fname, g) = space(tier).get(idx);
        let Some(g) = g else {
            return CaseOut { key: idx, nontrivial: false, outcome: "invalid_index".into(), counters: vec![(format!("invalid_{fname}"), 1)], ..Default::default() };
        };
        let src = g.source();
        let tags = g.tags();
        let (n, streams) = params(tier);
        let mut fails: Vec<Fail> = vec![];
        let mut outcome = "agree";
        let mut nonconst = false;
        let mut defined = 0;
        for &si in streams {
            let reference = match run_ref(&g, si, n) {
                Ok(r) => r,
                Err(EvalErr::Undefined(_)) => continue,
                Err(e) => {
                    fails.push(Fail { clause: "harness_panic".into(), detail: format!("reference interpreter: {e:?}") });
                    continue;
                }
            };
            defined += 1;
            if reference.iter().any(|o| o != &reference[0]) {
                nonconst = true;
            }
            match run_backend(Backend::Vm, &src, false, g.inputs, si, n, false) {
                Ok(fr) => {
                    if let Some((_, d)) = first_diff(&fr.out, &reference, num_eq) {
                        outcome = "differs";
                        fails.push(Fail {
                            clause: "vm_output_differs_from_reference".into(),
                            detail: format!("stream {si}: {d} (vm vs reference); vm={} ref={}", show(&fr.out, 6), show(&reference, 6)),
                        });
                    }
                }
                Err(RunErr::Compile(es)) => {
                    outcome = "rejected";
                    fails.push(Fail { clause: "vm_rejects_core_program".into(), detail: es.join(" | ") });
                    break;
                }
                Err(RunErr::Crash(m)) => {
                    outcome = "crash";
                    fails.push(Fail { clause: format!("vm_crash_{}", crash_label(&m)), detail: format!("stream {si}: {m}") });
                }
            }
        }
        if defined == 0 && fails.is_empty() {
            outcome = "reference_undefined";
        }
        // one failure per clause is enough
        fails.dedup_by(|a, b| a.clause == b.clause);
        CaseOut {
            key: fnv(src.as_bytes()),
            nontrivial: defined > 0 && nonconst,
            outcome: outcome.into(),
            fails,
            tags,
            repr: gen_repr(&g, &src),
            counters: vec![(format!("family_{}", g.family), 1), ("streams_defined".into(), defined as u64)],
        }
    }
    fn describe_case(&self, tier: Tier, idx: u64) -> (Value, Vec<String>) {
        match space(tier).get(idx).1 {
            Some(g) => {
                let src = g.source();
                (gen_repr(&g, &src), g.tags())
            }
            None => (json!({"idx": idx}), vec![]),
        }
    }
    fn crash_clause(&self) -> &'static str {
        "vm_crash_process"
    }
    fn describe(&self, tier: Tier) -> Descr {
        let (n, streams) = params(tier);
        Descr {
            rule: format!(
                "every operation sequence of the program families {} built by the harness (own AST, printed to source), each run for {n} samples on {} input streams ({STREAM_DESCR}) on the bytecode VM through the DspRuntime protocol and on the harness's reference interpreter (call-by-value, state keyed by call path); outputs compared numerically at every sample and channel. distinct = FNV-64 of source; non-trivial = reference defined and output not constant over time.",
                space(tier).describe(),
                streams.len()
            ),
            assumptions: vec![
                "the reference interpreter defines only what the statement defines: NaN conditions, delay times outside [1,n-1], logic operators are evaluated with truth = (> 0)".into(),
                "closure calls own state per call path like named functions (observed behaviour of global closures; the statement's 'textual call site')".into(),
                "WASM is compared against the VM by C01, not here".into(),
            ],
            bounds: json!({"samples": n, "streams": streams, "families": space(tier).describe()}),
            shape: "E",
        }
    }
    fn vacuity(&self, _t: Tier, c: &BTreeMap<String, u64>) -> Vec<String> {
        ["family_FX", "family_FS", "family_FC", "family_FA"].iter().filter(|k| c.get(**k).copied().unwrap_or(0) == 0).map(|k| format!("{k} empty")).collect()
    }
}
