//! Σ — program families (DESIGN §3.1).  Every family is a pure function index → program, so the
//! enumeration is exhaustive, reproducible and shardable.  An index that does not denote a valid
//! program (an operand that does not exist yet) yields `None` and is counted as such.

use crate::lang::*;

pub struct Gen {
    pub prog: Prog,
    pub family: &'static str,
    /// number of dsp input channels
    pub inputs: usize,
    /// human-readable operation list
    pub ops: Vec<String>,
    /// FT programs are text templates with their own reference model
    pub ft: Option<FtSpec>,
    /// plain text programs (no harness AST)
    pub text: Option<String>,
}
impl Gen {
    pub fn tags(&self) -> Vec<String> {
        let mut t = match &self.ft {
            Some(ft) if ft.burst.is_some() => {
                let (n, from_task) = ft.burst.unwrap();
                let mut t = vec![format!("fr_burst_{n}")];
                if from_task {
                    t.push("fr_requests_issued_by_a_running_task".into());
                }
                t
            }
            Some(ft) if !ft.local.is_empty() => {
                let mut t = vec![format!("fl_requests_{}", ft.local.len())];
                let l = &ft.local;
                if (0..l.len()).any(|a| (0..a).any(|b| l[a].0 == l[b].0 && l[a].1.floor() == l[b].1.floor())) {
                    t.push("fl_same_closure_value_requested_twice_for_one_sample".into());
                }
                t
            }
            Some(ft) => {
                let mut t = vec![format!("ft_tasks_{}", ft.tasks.len())];
                if ft.tasks.iter().any(|x| x.period > 0.0) {
                    t.push("ft_rescheduling_task".into());
                }
                // closures that running tasks hand to the scheduler: one per self-rescheduling task and one per chained task
                if ft.tasks.iter().filter(|x| x.period > 0.0 || (x.at.is_none() && x.from_dsp.is_none())).count() >= 2 {
                    t.push("ft_two_or_more_closures_scheduled_by_tasks".into());
                }
                if ft.tasks.iter().any(|x| x.from_dsp.is_some()) {
                    t.push("ft_task_scheduled_from_dsp".into());
                }
                t
            }
            None if self.text.is_some() => {
                let t = self.text.as_ref().unwrap();
                let mut v = vec![];
                let boxed = if self.family == "FB" {
                    // on the unchanged tree a value built in dsp is leaked as soon as it has two or more cells or is used
                    // in any way (passed on, matched, captured, put into a tuple); a one-cell value that is only bound
                    // is released correctly
                    self.ops.iter().any(|o| !(o.starts_with("elements are") || o == "new one-cell list" || o == "sum(global list)"))
                } else {
                    t.contains("  let l") || t.contains("build(") || t.contains("let inner = Cons")
                };
                if boxed {
                    v.push("boxed_value_created_per_dsp_call".to_string());
                }
                if self.family == "FB" && self.ops.first().map(|o| o.contains("inside a tuple")).unwrap_or(false) {
                    v.push("recursive_reference_inside_a_tuple".to_string());
                    if self.ops.iter().any(|o| o == "sum(last)") {
                        v.push("list_with_reference_inside_a_tuple_traversed".to_string());
                    }
                }
                if t.contains("| | sum(") || t.contains("let f = |v|") || t.contains("apply(|v|") {
                    v.push("closure_created_per_dsp_call".to_string());
                }
                v
            }
            None => features(&self.prog),
        };
        t.push(self.family.to_string());
        t
    }
    pub fn source(&self) -> String {
        if let Some(t) = &self.text {
            return t.clone();
        }
        match &self.ft {
            Some(ft) => ft.source(),
            None => print(&self.prog),
        }
    }
}

const DSP_IN: &str = "x";

fn fdef(name: &str, params: &[&str], body: E, ret: Shape) -> Item {
    Item::Fn(FnDef { name: name.into(), params: params.iter().map(|p| (p.to_string(), None)).collect(), body, ret })
}

/// mixed-radix digits: sequences of length 1..=k over `r` options, shortest first
pub fn seq_count(r: u64, k: u32) -> u64 {
    (1..=k).map(|l| r.pow(l)).sum()
}
pub fn seq_decode(mut idx: u64, r: u64, k: u32) -> Vec<u64> {
    for l in 1..=k {
        let n = r.pow(l);
        if idx < n {
            let mut d = vec![0; l as usize];
            for i in (0..l as usize).rev() {
                d[i] = idx % r;
                idx /= r;
            }
            return d;
        }
        idx -= n;
    }
    unreachable!("index out of range")
}

// ================================================================== FX: expressions

pub const BINOPS: [&str; 14] = ["+", "-", "*", "/", "%", "^", "<", "<=", ">", ">=", "==", "!=", "&&", "||"];
pub const MATH1: [&str; 13] = ["sin", "cos", "tan", "sinh", "cosh", "tanh", "atan", "sqrt", "abs", "log", "ceil", "floor", "round"];
pub const MATH2: [&str; 3] = ["atan2", "min", "max"];

fn leaf_full(i: u64) -> E {
    match i {
        0 => num(0.0),
        1 => num(1.0),
        2 => num(-1.0),
        3 => num(0.5),
        4 => num(2.0),
        5 => var(DSP_IN),
        6 => num(f64::INFINITY),
        7 => num(f64::NAN),
        8 => num(1e308),
        9 => num(-0.0),
        10 => num(5e-324),
        11 => E::Sr,
        _ => unreachable!(),
    }
}
const NLF: u64 = 12;
fn leaf_small(i: u64) -> E {
    match i {
        0 => var(DSP_IN),
        1 => num(0.5),
        2 => num(-1.0),
        3 => num(2.0),
        _ => unreachable!(),
    }
}
const NLS: u64 = 4;

fn fx_sizes() -> [u64; 7] {
    let b = BINOPS.len() as u64;
    let m1 = MATH1.len() as u64;
    let m2 = MATH2.len() as u64;
    let d1r = b * NLS * NLS + m1 * NLS;
    [
        b * NLF * NLF,        // 0 binop(l,l)
        NLF,                  // 1 neg l
        m1 * NLF,             // 2 math1(l)
        m2 * NLF * NLF,       // 3 math2(l,l)
        NLF * NLF * NLF,      // 4 if l l l
        b * d1r * NLS * 2,    // 5 binop(d1r, ls) both sides
        3 * NLF * NLF,        // 6 pipes: l |> f  (f in 3 lambdas) with second operand
    ]
}
pub fn fx_count() -> u64 {
    fx_sizes().iter().sum()
}
fn d1r(mut i: u64) -> E {
    let b = BINOPS.len() as u64;
    if i < b * NLS * NLS {
        let r = leaf_small(i % NLS);
        i /= NLS;
        let l = leaf_small(i % NLS);
        i /= NLS;
        return bin(BINOPS[i as usize], l, r);
    }
    i -= b * NLS * NLS;
    let l = leaf_small(i % NLS);
    E::Math(MATH1[(i / NLS) as usize], vec![l])
}
pub fn fx_decode(mut idx: u64) -> Option<Gen> {
    let sz = fx_sizes();
    let mut sect = 0;
    while idx >= sz[sect] {
        idx -= sz[sect];
        sect += 1;
    }
    let mut i = idx;
    let e = match sect {
        0 => {
            let r = leaf_full(i % NLF);
            i /= NLF;
            let l = leaf_full(i % NLF);
            i /= NLF;
            bin(BINOPS[i as usize], l, r)
        }
        1 => E::Neg(Box::new(leaf_full(i))),
        2 => E::Math(MATH1[(i / NLF) as usize], vec![leaf_full(i % NLF)]),
        3 => {
            let r = leaf_full(i % NLF);
            i /= NLF;
            let l = leaf_full(i % NLF);
            i /= NLF;
            E::Math(MATH2[i as usize], vec![l, r])
        }
        4 => {
            let c = leaf_full(i % NLF);
            i /= NLF;
            let t = leaf_full(i % NLF);
            i /= NLF;
            iff(c, t, leaf_full(i))
        }
        5 => {
            let side = i % 2;
            i /= 2;
            let l = leaf_small(i % NLS);
            i /= NLS;
            let b = BINOPS.len() as u64;
            let d1n = b * NLS * NLS + MATH1.len() as u64 * NLS;
            let d = d1r(i % d1n);
            i /= d1n;
            if side == 0 { bin(BINOPS[i as usize], d, l) } else { bin(BINOPS[i as usize], l, d) }
        }
        6 => {
            let b = leaf_full(i % NLF);
            i /= NLF;
            let a = leaf_full(i % NLF);
            i /= NLF;
            let lam = match i {
                0 => E::Lambda(vec!["y".into()], Box::new(bin("-", var("y"), b))),
                1 => E::Lambda(vec!["y".into()], Box::new(bin("/", b, var("y")))),
                _ => E::Lambda(vec!["y".into()], Box::new(iff(var("y"), b, var("y")))),
            };
            E::Pipe(Box::new(a), Box::new(lam), 1)
        }
        _ => unreachable!(),
    };
    let ops = vec![pe(&e, 0)];
    let prog = Prog { items: vec![fdef("dsp", &[DSP_IN], e, Shape::F)] };
    Some(Gen { prog, family: "FX", inputs: 1, ops, ft: None, text: None })
}

// ================================================================== FP: operator precedence and associativity (printed without parentheses)

const FP_LEAVES: [&str; 4] = ["x", "0.5", "2.0", "3.0"];
fn fp_leaf(i: usize) -> E {
    match i {
        0 => var(DSP_IN),
        1 => num(0.5),
        2 => num(2.0),
        _ => num(3.0),
    }
}
pub fn fp_count() -> u64 {
    let b = BINOPS.len() as u64;
    b * b * 64 + b * 16 * 3
}
fn fp_prec(op: &str) -> (u8, bool) {
    // documented in parser/ebnf.md: (precedence, right associative)
    match op {
        "||" => (2, false),
        "&&" => (3, false),
        "==" | "!=" => (5, false),
        "<" | "<=" | ">" | ">=" => (6, false),
        "+" | "-" => (7, false),
        "*" | "/" | "%" => (8, false),
        "^" => (9, true),
        _ => unreachable!(),
    }
}
#[derive(Clone)]
enum Tok {
    Atom(E),
    Neg,
    Op(&'static str),
}
fn fp_parse(toks: &[Tok], pos: &mut usize, min: u8) -> E {
    // unary minus binds tighter than every binary operator (UnaryExpr ::= { "-" } DotExpr)
    let mut lhs = match &toks[*pos] {
        Tok::Neg => {
            *pos += 1;
            let Tok::Atom(a) = &toks[*pos] else { unreachable!() };
            *pos += 1;
            E::Neg(Box::new(a.clone()))
        }
        Tok::Atom(a) => {
            *pos += 1;
            a.clone()
        }
        Tok::Op(_) => unreachable!(),
    };
    while *pos < toks.len() {
        let Tok::Op(op) = &toks[*pos] else { break };
        let (p, right) = fp_prec(op);
        if p < min {
            break;
        }
        *pos += 1;
        let rhs = fp_parse(toks, pos, if right { p } else { p + 1 });
        lhs = bin(op, lhs, rhs);
    }
    lhs
}
pub fn fp_decode(idx: u64) -> Option<Gen> {
    let b = BINOPS.len() as u64;
    let (toks, text): (Vec<Tok>, String) = if idx < b * b * 64 {
        let mut i = idx;
        let l2 = (i % 4) as usize;
        i /= 4;
        let l1 = (i % 4) as usize;
        i /= 4;
        let l0 = (i % 4) as usize;
        i /= 4;
        let (o2, o1) = ((i % b) as usize, (i / b) as usize);
        if BINOPS[o1] == "^" && BINOPS[o2] == "^" {
            // `a ^ b ^ c`: parser/ebnf.md documents right associativity, the implementation groups to the left;
            // the property statement does not say: outside the alphabet (noted in DESIGN 8.3)
            return None;
        }
        (
            vec![Tok::Atom(fp_leaf(l0)), Tok::Op(BINOPS[o1]), Tok::Atom(fp_leaf(l1)), Tok::Op(BINOPS[o2]), Tok::Atom(fp_leaf(l2))],
            format!("{} {} {} {} {}", FP_LEAVES[l0], BINOPS[o1], FP_LEAVES[l1], BINOPS[o2], FP_LEAVES[l2]),
        )
    } else {
        let mut i = idx - b * b * 64;
        let variant = i % 3;
        i /= 3;
        let l1 = (i % 4) as usize;
        i /= 4;
        let l0 = (i % 4) as usize;
        i /= 4;
        let o = i as usize;
        match variant {
            0 => (vec![Tok::Neg, Tok::Atom(fp_leaf(l0)), Tok::Op(BINOPS[o]), Tok::Atom(fp_leaf(l1))], format!("-{} {} {}", FP_LEAVES[l0], BINOPS[o], FP_LEAVES[l1])),
            1 => (vec![Tok::Atom(fp_leaf(l0)), Tok::Op(BINOPS[o]), Tok::Neg, Tok::Atom(fp_leaf(l1))], format!("{} {} -{}", FP_LEAVES[l0], BINOPS[o], FP_LEAVES[l1])),
            _ => (vec![Tok::Neg, Tok::Atom(fp_leaf(l0)), Tok::Op(BINOPS[o]), Tok::Neg, Tok::Atom(fp_leaf(l1))], format!("-{} {} -{}", FP_LEAVES[l0], BINOPS[o], FP_LEAVES[l1])),
        }
    };
    let mut pos = 0;
    let e = fp_parse(&toks, &mut pos, 0);
    let prog = Prog { items: vec![fdef("dsp", &[DSP_IN], e, Shape::F)] };
    Some(Gen { prog, family: "FP", inputs: 1, ops: vec![text.clone()], ft: None, text: Some(format!("fn dsp(x) {{\n  {text}\n}}\n")) })
}

// ================================================================== FS: state layout

/// helper menu: (name, definition, return shape, helpers it needs)
fn helper(name: &str, s: &mut Sites) -> Item {
    let p = || var("p");
    match name {
        "cnt" => fdef("cnt", &["p"], bin("+", E::SelfV, p()), Shape::F),
        "cnt2" => fdef(
            "cnt2",
            &["p"],
            block(
                vec![S::Let(Pat::Tuple(vec![Pat::Var("a".into()), Pat::Var("b".into())]), E::SelfV)],
                E::Tuple(vec![bin("+", var("a"), p()), bin("+", var("b"), var("a"))]),
            ),
            Shape::T(vec![Shape::F, Shape::F]),
        ),
        // `self` of a nested tuple type: the cell is wider than its number of members
        "cnt3" => fdef(
            "cnt3",
            &["p"],
            block(
                vec![S::Let(Pat::Tuple(vec![Pat::Tuple(vec![Pat::Var("a".into()), Pat::Var("b".into())]), Pat::Var("c".into())]), E::SelfV)],
                E::Tuple(vec![E::Tuple(vec![bin("+", var("a"), p()), bin("+", var("b"), var("a"))]), bin("+", var("c"), num(1.0))]),
            ),
            Shape::T(vec![Shape::T(vec![Shape::F, Shape::F]), Shape::F]),
        ),
        "m" => fdef("m", &["p"], E::Mem(Box::new(p()), s.next()), Shape::F),
        "dS" => fdef("dS", &["p"], E::Delay(3.0, Box::new(p()), Box::new(num(1.0)), s.next()), Shape::F),
        "dL" => fdef("dL", &["p"], E::Delay(10.0, Box::new(p()), Box::new(num(5.0)), s.next()), Shape::F),
        "two" => fdef(
            "two",
            &["p"],
            bin("+", E::Delay(3.0, Box::new(p()), Box::new(num(1.0)), s.next()), E::Delay(10.0, Box::new(p()), Box::new(num(5.0)), s.next())),
            Shape::F,
        ),
        "nest" => fdef("nest", &["p"], bin("+", call("cnt", vec![p()], s.next()), E::SelfV), Shape::F),
        "nestd" => fdef(
            "nestd",
            &["p"],
            block(vec![let_("d", E::Delay(3.0, Box::new(p()), Box::new(num(1.0)), s.next()))], bin("+", bin("+", call("cnt", vec![num(1.0)], s.next()), E::SelfV), var("d"))),
            Shape::F,
        ),
        "br" => fdef("br", &["p"], iff(p(), call("cnt", vec![num(1.0)], s.next()), num(0.0)), Shape::F),
        "pure" => fdef("pure", &["p"], bin("*", p(), num(2.0)), Shape::F),
        // the stateful call is the right-hand side of an assignment
        "asg" => fdef("asg", &["p"], block(vec![let_("v", num(0.0)), S::Assign("v".into(), call("cnt", vec![p()], s.next()))], var("v")), Shape::F),
        // phasor: reads the sample rate on the dsp path
        "ph" => fdef("ph", &["p"], bin("%", bin("+", E::SelfV, bin("/", bin("*", bin("+", p(), num(1.0)), num(4800.0)), E::Sr)), num(1.0)), Shape::F),
        "deep" => fdef("deep", &["p"], bin("+", call("nest", vec![p()], s.next()), E::Mem(Box::new(p()), s.next())), Shape::F),
        _ => unreachable!("{name}"),
    }
}
const FS_HELPERS: [&str; 15] = ["cnt", "cnt2", "m", "dS", "dL", "two", "nest", "nestd", "br", "pure", "deep", "ph", "gamp", "cnt3", "asg"];
fn helper_deps(name: &str) -> &'static [&'static str] {
    match name {
        "nest" | "nestd" | "br" | "asg" => &["cnt"],
        "deep" => &["cnt", "nest"],
        _ => &[],
    }
}

struct Ctx {
    vars: Vec<String>,
    stmts: Vec<S>,
    sites: Sites,
    used: Vec<&'static str>,
    ops: Vec<String>,
    n: usize,
    dsp_self: bool,
}
impl Ctx {
    fn atom(&self, i: u64) -> Option<E> {
        Some(match i {
            0 => var(DSP_IN),
            1 => num(1.0),
            2 => var(self.vars.last()?),
            3 => {
                if self.vars.len() < 2 {
                    return None;
                }
                var(&self.vars[self.vars.len() - 2])
            }
            _ => unreachable!(),
        })
    }
    fn fresh(&mut self) -> String {
        self.n += 1;
        format!("v{}", self.n)
    }
    fn use_helper(&mut self, h: &'static str) {
        for d in helper_deps(h) {
            if !self.used.contains(d) {
                self.used.push(d);
            }
        }
        if !self.used.contains(&h) {
            self.used.push(h);
        }
    }
}

const FS_ATOMS: u64 = 4;
/// (maximum length, time); the last three leave the range 1 <= t <= n-1 for which the language defines `delay`
/// (the reference interpreter answers *undefined* there and C02 skips the case, but the backends, the generated Rust
/// and the published layout are still compared with each other): t = n, t far above n, and a time that varies with
/// `now` and crosses n (written as time -1.0 here)
const FS_DELAYS: [(f64, f64); 7] = [(3.0, 1.0), (10.0, 5.0), (10.0, 1.5), (2.5, 1.0), (4.0, 4.0), (4.0, 100.0), (8.0, -1.0)];
/// options per statement
fn fs_radix() -> u64 {
    FS_HELPERS.len() as u64 * FS_ATOMS  // call helper(atom)
        + FS_ATOMS                      // mem(atom)
        + FS_DELAYS.len() as u64 * 2    // delay(N, atom in {x, last}, t)
        + 3                             // mem / delay whose operand is itself a stateful call
        + 2 * 4 * 4                     // if (c) B else B
        + 2                             // arithmetic on last
        + 3                             // nested block with two stateful lets / dsp self / block shadowing a name
        + 3                             // assignments whose right-hand side is a stateful call (plain, mem, under if)
        + 3                             // a delay written directly in an if arm (taken on some samples only)
        + 1                             // a block that starts with an expression statement and then shadows a name
        + 3                             // an `if` whose condition owns state
}
pub fn fs_count(k: u32) -> u64 {
    seq_count(fs_radix(), k)
}
fn fs_branch(c: &mut Ctx, i: u64) -> Option<E> {
    Some(match i {
        0 => num(0.0),
        1 => {
            c.use_helper("cnt");
            call("cnt", vec![num(1.0)], c.sites.next())
        }
        2 => E::Mem(Box::new(var(DSP_IN)), c.sites.next()),
        3 => {
            c.use_helper("nest");
            call("nest", vec![var(DSP_IN)], c.sites.next())
        }
        _ => unreachable!(),
    })
}
fn fs_stmt(c: &mut Ctx, mut o: u64) -> Option<()> {
    let nh = FS_HELPERS.len() as u64;
    if o < nh * FS_ATOMS {
        let h = FS_HELPERS[(o / FS_ATOMS) as usize];
        let a = c.atom(o % FS_ATOMS)?;
        c.use_helper(h);
        let site = c.sites.next();
        c.ops.push(format!("call {h}({})", pe(&a, 0)));
        if h == "cnt2" {
            let (p, q) = (c.fresh(), c.fresh());
            c.stmts.push(S::Let(Pat::Tuple(vec![Pat::Var(p.clone()), Pat::Var(q.clone())]), call(h, vec![a], site)));
            c.vars.push(p);
            c.vars.push(q);
        } else if h == "cnt3" {
            let (p, q, r) = (c.fresh(), c.fresh(), c.fresh());
            c.stmts.push(S::Let(Pat::Tuple(vec![Pat::Tuple(vec![Pat::Var(p.clone()), Pat::Var(q.clone())]), Pat::Var(r.clone())]), call(h, vec![a], site)));
            c.vars.push(p);
            c.vars.push(q);
            c.vars.push(r);
        } else {
            let v = c.fresh();
            c.stmts.push(let_(&v, call(h, vec![a], site)));
            c.vars.push(v);
        }
        return Some(());
    }
    o -= nh * FS_ATOMS;
    if o < FS_ATOMS {
        let a = c.atom(o)?;
        let v = c.fresh();
        c.ops.push(format!("mem({})", pe(&a, 0)));
        let site = c.sites.next();
        c.stmts.push(let_(&v, E::Mem(Box::new(a), site)));
        c.vars.push(v);
        return Some(());
    }
    o -= FS_ATOMS;
    if o < FS_DELAYS.len() as u64 * 2 {
        let (n, t) = FS_DELAYS[(o / 2) as usize];
        let a = c.atom(if o % 2 == 0 { 0 } else { 2 })?;
        let v = c.fresh();
        let te = if t < 0.0 { bin("%", E::Now, num(n + 4.0)) } else { num(t) };
        c.ops.push(format!("delay({n},{},{})", pe(&a, 0), pe(&te, 0)));
        let site = c.sites.next();
        c.stmts.push(let_(&v, E::Delay(n, Box::new(a), Box::new(te), site)));
        c.vars.push(v);
        return Some(());
    }
    o -= FS_DELAYS.len() as u64 * 2;
    if o < 3 {
        // the cell of the outer mem / delay and the cell of its operand belong to one call site expression
        c.use_helper("cnt");
        let inner = call("cnt", vec![c.atom(0)?], c.sites.next());
        let v = c.fresh();
        let site = c.sites.next();
        let (e, what) = match o {
            0 => (E::Mem(Box::new(inner), site), "mem(cnt(x))"),
            1 => (E::Delay(3.0, Box::new(inner), Box::new(num(1.0)), site), "delay(3,cnt(x),1)"),
            _ => (E::Delay(10.0, Box::new(inner), Box::new(num(5.0)), site), "delay(10,cnt(x),5)"),
        };
        c.ops.push(what.into());
        c.stmts.push(let_(&v, e));
        c.vars.push(v);
        return Some(());
    }
    o -= 3;
    if o < 32 {
        let cond = if o / 16 == 0 { var(DSP_IN) } else { bin("%", E::Now, num(2.0)) };
        let b1 = fs_branch(c, (o / 4) % 4)?;
        let b2 = fs_branch(c, o % 4)?;
        let v = c.fresh();
        c.ops.push(format!("if ({}) {} else {}", pe(&cond, 0), pe(&b1, 0), pe(&b2, 0)));
        c.stmts.push(let_(&v, iff(cond, b1, b2)));
        c.vars.push(v);
        return Some(());
    }
    o -= 32;
    if o < 2 {
        let a = c.atom(2)?;
        let v = c.fresh();
        let e = if o == 0 { bin("+", a, var(DSP_IN)) } else { bin("*", a, num(0.5)) };
        c.ops.push(format!("arith {}", pe(&e, 0)));
        c.stmts.push(let_(&v, e));
        c.vars.push(v);
        return Some(());
    }
    o -= 2;
    match o {
        0 => {
            // nested block with two stateful lets
            c.use_helper("cnt");
            let (s1, s2) = (c.sites.next(), c.sites.next());
            let v = c.fresh();
            let e = block(vec![let_("b1", call("cnt", vec![var(DSP_IN)], s1)), let_("b2", E::Mem(Box::new(var("b1")), s2))], bin("+", var("b1"), var("b2")));
            c.ops.push("block{cnt;mem}".into());
            c.stmts.push(let_(&v, e));
            c.vars.push(v);
        }
        1 => {
            // dsp's own self (scalar part): only as first statement, marks the program
            if !c.stmts.is_empty() || c.dsp_self {
                return None;
            }
            c.ops.push("dsp_self".into());
            c.dsp_self = true;
        }
        3..=5 => {
            // `let v = 0.0` then an assignment whose right-hand side is stateful: a call, a mem, or - under an if
            // with unit arms - one call per arm
            c.use_helper("cnt");
            let v = c.fresh();
            c.stmts.push(let_(&v, num(0.0)));
            match o {
                3 => {
                    let a = c.atom(0)?;
                    c.ops.push(format!("{v} = cnt({})", pe(&a, 0)));
                    let s = c.sites.next();
                    c.stmts.push(S::Assign(v.clone(), call("cnt", vec![a], s)));
                }
                4 => {
                    c.ops.push(format!("{v} = mem(x) + cnt(1)"));
                    let (s1, s2) = (c.sites.next(), c.sites.next());
                    c.stmts.push(S::Assign(v.clone(), bin("+", E::Mem(Box::new(var(DSP_IN)), s1), call("cnt", vec![num(1.0)], s2))));
                }
                _ => {
                    c.ops.push(format!("if (x) {{ {v} = cnt(1) }} else {{ {v} = cnt(10) }}"));
                    let (s1, s2) = (c.sites.next(), c.sites.next());
                    let t = E::Block(vec![S::Assign(v.clone(), call("cnt", vec![num(1.0)], s1))], None);
                    let e = E::Block(vec![S::Assign(v.clone(), call("cnt", vec![num(10.0)], s2))], None);
                    c.stmts.push(S::Expr(E::If(Box::new(var(DSP_IN)), Box::new(t), Box::new(e))));
                }
            }
            c.vars.push(v);
        }
        6..=8 => {
            // a delay written directly in an arm of an `if` of this function: on the samples on which the arm is not
            // taken, the function's later delays still have to find their own cell
            let v = c.fresh();
            let (s1, s2) = (c.sites.next(), c.sites.next());
            let d3 = E::Delay(3.0, Box::new(var(DSP_IN)), Box::new(num(1.0)), s1);
            let (e, what) = match o {
                6 => (iff(var(DSP_IN), d3, num(0.0)), "if (x) delay(3,x,1) else 0"),
                7 => (iff(bin("%", E::Now, num(2.0)), num(0.0), d3), "if (now % 2) 0 else delay(3,x,1)"),
                _ => (iff(var(DSP_IN), d3, E::Delay(10.0, Box::new(var(DSP_IN)), Box::new(num(5.0)), s2)), "if (x) delay(3,x,1) else delay(10,x,5)"),
            };
            c.ops.push(what.into());
            c.stmts.push(let_(&v, e));
            c.vars.push(v);
        }
        9 => {
            // like the shadowing block below, but the block's first statement is not a binding (shadows the most recent
            // name, or dsp's parameter if there is none yet)
            let last = c.vars.last().cloned().unwrap_or_else(|| DSP_IN.to_string());
            let v = c.fresh();
            let e = E::Block(vec![S::Expr(bin("+", var(&last), num(0.0))), let_(&last, bin("+", var(&last), num(5.0)))], Some(Box::new(bin("*", var(&last), num(2.0)))));
            c.ops.push(format!("block starting with an expression statement, then shadowing {last}"));
            c.stmts.push(let_(&v, e));
            let w = c.fresh();
            c.stmts.push(let_(&w, bin("+", var(&last), num(0.25))));
            c.vars.push(v);
            c.vars.push(w);
        }
        10..=12 => {
            // an `if` whose condition itself owns state (a mem, a counter, a delay), with state in the arms as well
            let v = c.fresh();
            c.use_helper("cnt");
            let (s1, s2, s3) = (c.sites.next(), c.sites.next(), c.sites.next());
            let (e, what) = match o {
                10 => (iff(bin(">", E::Mem(Box::new(var(DSP_IN)), s1), num(0.5)), call("cnt", vec![num(1.0)], s2), num(0.0)), "if (mem(x) > 0.5) cnt(1) else 0"),
                11 => (iff(bin(">", call("cnt", vec![num(1.0)], s1), num(2.5)), num(5.0), num(7.0)), "if (cnt(1) > 2.5) 5 else 7"),
                _ => (iff(bin(">", E::Delay(3.0, Box::new(var(DSP_IN)), Box::new(num(1.0)), s1), num(0.5)), E::Mem(Box::new(var(DSP_IN)), s2), call("cnt", vec![num(1.0)], s3)), "if (delay(3,x,1) > 0.5) mem(x) else cnt(1)"),
            };
            c.ops.push(what.into());
            c.stmts.push(let_(&v, e));
            c.vars.push(v);
        }
        _ => {
            // an inner block rebinds the most recent name; the outer binding must be unaffected afterwards
            let last = c.vars.last()?.clone();
            let v = c.fresh();
            let e = block(vec![let_(&last, bin("+", var(&last), num(5.0)))], bin("*", var(&last), num(2.0)));
            c.ops.push(format!("block shadowing {last}"));
            c.stmts.push(let_(&v, e));
            // make the outer name observable after the block
            let w = c.fresh();
            c.stmts.push(let_(&w, bin("+", var(&last), num(0.25))));
            c.vars.push(v);
            c.vars.push(w);
        }
    }
    Some(())
}
pub fn fs_decode(idx: u64, k: u32) -> Option<Gen> {
    let digits = seq_decode(idx, fs_radix(), k);
    let mut c = Ctx { vars: vec![], stmts: vec![], sites: Sites(100), used: vec![], ops: vec![], n: 0, dsp_self: false };
    for d in digits {
        fs_stmt(&mut c, d)?;
    }
    let dsp_self = c.dsp_self;
    let outs: Vec<String> = c.vars.clone();
    if outs.is_empty() {
        return None;
    }
    // at most 4 output channels: the last four bound names
    let outs: Vec<String> = outs.iter().rev().take(4).rev().cloned().collect();
    let (ret, shape) = if dsp_self {
        // dsp = self*0.5 + sum(outs): scalar feedback through dsp's own cell
        let mut e = bin("*", E::SelfV, num(0.5));
        for o in &outs {
            e = bin("+", e, var(o));
        }
        (e, Shape::F)
    } else if outs.len() == 1 {
        (var(&outs[0]), Shape::F)
    } else {
        (E::Tuple(outs.iter().map(|o| var(o)).collect()), Shape::T(outs.iter().map(|_| Shape::F).collect()))
    };
    let mut hs = Sites(0);
    let mut items: Vec<Item> = vec![];
    for h in FS_HELPERS.iter().filter(|h| c.used.contains(h)) {
        if *h == "gamp" {
            // a closure made by a factory (it captures the factory's argument), bound at global scope and used by dsp:
            // heap-allocated by the global initialiser, stateless
            items.push(fdef("mkgain", &["g"], E::Lambda(vec!["y".into()], Box::new(bin("*", var("y"), var("g")))), Shape::F));
            items.push(Item::Let(Pat::Var("gamp".into()), call("mkgain", vec![num(0.5)], hs.next())));
        } else {
            items.push(helper(h, &mut hs));
        }
    }
    items.push(fdef("dsp", &[DSP_IN], E::Block(c.stmts, Some(Box::new(ret))), shape));
    Some(Gen { prog: Prog { items }, family: "FS", inputs: 1, ops: c.ops, ft: None, text: None })
}

// ================================================================== FC: closures

#[derive(Clone, Copy, PartialEq)]
enum Ty {
    F,
    C0,
    C1,
    /// record {gain: float, f: (float)->float} made by a factory
    RecC,
}
struct CCtx {
    vars: Vec<(String, Ty, bool)>, // name, type, assignable local float
    stmts: Vec<S>,
    sites: Sites,
    ops: Vec<String>,
    n: usize,
    need: Vec<&'static str>,
}
impl CCtx {
    fn last(&self, t: Ty) -> Option<String> {
        self.vars.iter().rev().find(|v| v.1 == t).map(|v| v.0.clone())
    }
    fn last_local(&self) -> Option<String> {
        self.vars.iter().rev().find(|v| v.1 == Ty::F && v.2).map(|v| v.0.clone())
    }
    fn fresh(&mut self, p: &str) -> String {
        self.n += 1;
        format!("{p}{}", self.n)
    }
    fn need(&mut self, h: &'static str) {
        if !self.need.contains(&h) {
            self.need.push(h);
        }
    }
}
fn fc_atom(i: u64) -> E {
    if i == 0 { var(DSP_IN) } else { num(1.0) }
}
const FC_RADIX: u64 = 43;
pub fn fc_count(k: u32) -> u64 {
    seq_count(FC_RADIX, k)
}
fn fc_stmt(c: &mut CCtx, o: u64) -> Option<()> {
    let a = fc_atom(o % 2);
    match o {
        0 | 1 => {
            let v = c.fresh("v");
            c.ops.push(format!("let {v} = {}", pe(&a, 0)));
            c.stmts.push(let_(&v, a));
            c.vars.push((v, Ty::F, true));
        }
        2 | 3 => {
            let v = c.last_local()?;
            let f = c.fresh("f");
            let body = E::Block(vec![S::Assign(v.clone(), bin("+", var(&v), a))], Some(Box::new(var(&v))));
            c.ops.push(format!("let {f} = | | {{ {v} = {v} + a; {v} }}"));
            c.stmts.push(let_(&f, E::Lambda(vec![], Box::new(body))));
            c.vars.push((f, Ty::C0, false));
        }
        4 => {
            let v = c.last(Ty::F).unwrap_or(DSP_IN.into());
            let f = c.fresh("f");
            c.ops.push(format!("let {f} = |y| y + {v}"));
            c.stmts.push(let_(&f, E::Lambda(vec!["y".into()], Box::new(bin("+", var("y"), var(&v))))));
            c.vars.push((f, Ty::C1, false));
        }
        5 => {
            let v = c.last_local()?;
            let f = c.fresh("f");
            let body = E::Block(vec![S::Assign(v.clone(), bin("+", var(&v), var("y")))], Some(Box::new(var(&v))));
            c.ops.push(format!("let {f} = |y| {{ {v} = {v} + y; {v} }}"));
            c.stmts.push(let_(&f, E::Lambda(vec!["y".into()], Box::new(body))));
            c.vars.push((f, Ty::C1, false));
        }
        6 => {
            let f = c.last(Ty::C0)?;
            let r = c.fresh("r");
            c.ops.push(format!("let {r} = {f}()"));
            let s = c.sites.next();
            c.stmts.push(let_(&r, call(&f, vec![], s)));
            c.vars.push((r, Ty::F, false));
        }
        7 | 8 => {
            let f = c.last(Ty::C1)?;
            let r = c.fresh("r");
            c.ops.push(format!("let {r} = {f}({})", pe(&a, 0)));
            let s = c.sites.next();
            c.stmts.push(let_(&r, call(&f, vec![a], s)));
            c.vars.push((r, Ty::F, false));
        }
        9 | 10 => {
            let v = c.last_local()?;
            c.ops.push(format!("{v} = {v} + {}", pe(&a, 0)));
            c.stmts.push(S::Assign(v.clone(), bin("+", var(&v), a)));
        }
        11 | 12 => {
            let f = c.last(Ty::C1)?;
            let r = c.fresh("r");
            c.need("apply");
            c.ops.push(format!("let {r} = apply({f}, {})", pe(&a, 0)));
            let s = c.sites.next();
            c.stmts.push(let_(&r, call("apply", vec![var(&f), a], s)));
            c.vars.push((r, Ty::F, false));
        }
        13 | 14 => {
            let f = c.fresh("f");
            c.need("mkadd");
            c.ops.push(format!("let {f} = mkadd({})", pe(&a, 0)));
            let s = c.sites.next();
            c.stmts.push(let_(&f, call("mkadd", vec![a], s)));
            c.vars.push((f, Ty::C1, false));
        }
        15 => {
            let r = c.fresh("r");
            c.need("gc");
            c.ops.push(format!("let {r} = gc()"));
            let s = c.sites.next();
            c.stmts.push(let_(&r, call("gc", vec![], s)));
            c.vars.push((r, Ty::F, false));
        }
        16 | 17 => {
            let f = c.last(Ty::C1)?;
            let r = c.fresh("r");
            c.ops.push(format!("let {r} = {} |> {f}", pe(&a, 0)));
            let s = c.sites.next();
            c.stmts.push(let_(&r, E::Pipe(Box::new(a), Box::new(var(&f)), s)));
            c.vars.push((r, Ty::F, false));
        }
        18 => {
            let f = c.fresh("f");
            c.need("mkcounter");
            c.ops.push(format!("let {f} = mkcounter()"));
            let s = c.sites.next();
            c.stmts.push(let_(&f, call("mkcounter", vec![], s)));
            c.vars.push((f, Ty::C0, false));
        }
        19 | 20 => {
            let r = c.fresh("r");
            c.need("cnt");
            c.ops.push(format!("let {r} = cnt({})", pe(&a, 0)));
            let s = c.sites.next();
            c.stmts.push(let_(&r, call("cnt", vec![a], s)));
            c.vars.push((r, Ty::F, false));
        }
        21 => {
            let f = c.fresh("f");
            c.need("cnt");
            c.ops.push(format!("let {f} = |y| cnt(y)"));
            let s = c.sites.next();
            c.stmts.push(let_(&f, E::Lambda(vec!["y".into()], Box::new(call("cnt", vec![var("y")], s)))));
            c.vars.push((f, Ty::C1, false));
        }
        22 => {
            // global adder closure with captured global-scope variable
            let r = c.fresh("r");
            c.need("gadd");
            c.ops.push(format!("let {r} = gadd(x)"));
            let s = c.sites.next();
            c.stmts.push(let_(&r, call("gadd", vec![var(DSP_IN)], s)));
            c.vars.push((r, Ty::F, false));
        }
        24 => {
            // generic pass-through lambda (no arithmetic on its parameter: stays polymorphic)
            let f = c.fresh("f");
            c.ops.push(format!("let {f} = |y| y"));
            c.stmts.push(let_(&f, E::Lambda(vec!["y".into()], Box::new(var("y")))));
            c.vars.push((f, Ty::C1, false));
        }
        25 => {
            // generic top-level function bound to a variable and called through it
            let f = c.fresh("f");
            c.need("idf");
            c.ops.push(format!("let {f} = idf"));
            c.stmts.push(let_(&f, var("idf")));
            c.vars.push((f, Ty::C1, false));
        }
        32 => {
            // a record that mixes a closure with a plain field, built and returned by a function
            let r = c.fresh("k");
            c.need("mkrec");
            c.ops.push(format!("let {r} = mkrec({})", pe(&a, 0)));
            let s = c.sites.next();
            c.stmts.push(let_(&r, call("mkrec", vec![a], s)));
            c.vars.push((r, Ty::RecC, false));
        }
        33 | 34 => {
            // call the closure held in such a record: a local one, or one bound at global scope
            let rec = if o == 33 {
                c.last(Ty::RecC)?
            } else {
                c.need("mkrec");
                c.need("grec");
                "grec".to_string()
            };
            let r = c.fresh("r");
            c.ops.push(format!("let {r} = {rec}.f(x) * {rec}.gain"));
            let s = c.sites.next();
            let e = bin("*", E::CallE(Box::new(E::Field(Box::new(var(&rec)), "f".into())), vec![var(DSP_IN)], s), E::Field(Box::new(var(&rec)), "gain".into()));
            c.stmts.push(let_(&r, e));
            c.vars.push((r, Ty::F, false));
        }
        37 => {
            // a stateful higher-order function: it keeps its own `self` and calls the function value it is given
            // (the most recent one-parameter closure, or a lambda written in place)
            let r = c.fresh("r");
            c.need("sapply");
            let f = match c.last(Ty::C1) {
                Some(f) => var(&f),
                None => E::Lambda(vec!["y".into()], Box::new(bin("*", var("y"), num(2.0)))),
            };
            c.ops.push(format!("let {r} = sapply({}, {})", pe(&f, 0), pe(&a, 0)));
            let s = c.sites.next();
            c.stmts.push(let_(&r, call("sapply", vec![f, a], s)));
            c.vars.push((r, Ty::F, false));
        }
        38 => {
            // a closure called on some samples only
            let f = c.last(Ty::C1)?;
            let r = c.fresh("r");
            c.ops.push(format!("let {r} = if (x > 0.5) {f}(a) else a"));
            let s = c.sites.next();
            c.stmts.push(let_(&r, iff(bin(">", var(DSP_IN), num(0.5)), call(&f, vec![a.clone()], s), a)));
            c.vars.push((r, Ty::F, false));
        }
        35 | 36 => {
            // a local recursive function (letrec) used as a loop: an accumulator loop, and one that reads a captured local
            let g = c.fresh("go");
            let r = c.fresh("r");
            let (s1, s2) = (c.sites.next(), c.sites.next());
            if o == 35 {
                let body = iff(bin(">", var("i"), num(2.5)), var("acc"), call(&g, vec![bin("+", var("i"), num(1.0)), bin("+", var("acc"), var("i"))], s1));
                c.ops.push(format!("letrec {g} = |i, acc| if (i > 2.5) acc else {g}(i + 1, acc + i); let {r} = {g}(0, a)"));
                c.stmts.push(S::LetRec(g.clone(), E::Lambda(vec!["i".into(), "acc".into()], Box::new(body))));
                c.stmts.push(let_(&r, call(&g, vec![num(0.0), a], s2)));
            } else {
                let v = c.last(Ty::F).unwrap_or(DSP_IN.into());
                let body = iff(bin("<", var("i"), num(0.5)), var(&v), bin("+", call(&g, vec![bin("-", var("i"), num(1.0))], s1), num(1.0)));
                c.ops.push(format!("letrec {g} = |i| if (i < 0.5) {v} else {g}(i - 1) + 1; let {r} = {g}(2)"));
                c.stmts.push(S::LetRec(g.clone(), E::Lambda(vec!["i".into()], Box::new(body))));
                c.stmts.push(let_(&r, call(&g, vec![num(2.0)], s2)));
            }
            c.vars.push((r, Ty::F, false));
        }
        30 | 31 => {
            // the closure a factory returns is applied on the spot: mkadd(a)(b)
            let r = c.fresh("r");
            c.need("mkadd");
            let s1 = c.sites.next();
            let s2 = c.sites.next();
            let e = E::CallE(Box::new(call("mkadd", vec![a.clone()], s1)), vec![num(if o == 30 { 1.0 } else { 2.5 })], s2);
            c.ops.push(format!("let {r} = mkadd({})({})", pe(&a, 0), if o == 30 { "1.0" } else { "2.5" }));
            c.stmts.push(let_(&r, e));
            c.vars.push((r, Ty::F, false));
        }
        28 | 29 => {
            // conditional statements of unit type: an assignment under `if` without else, and with unit arms on both sides
            let v = c.last_local()?;
            let cond = bin(">", fc_atom(0), num(0.5));
            let then = E::Block(vec![S::Assign(v.clone(), bin("+", var(&v), num(1.0)))], None);
            let els = if o == 28 { E::Block(vec![], None) } else { E::Block(vec![S::Assign(v.clone(), bin("+", var(&v), num(10.0)))], None) };
            c.ops.push(if o == 28 { format!("if (x > 0.5) {{ {v} = {v} + 1 }}") } else { format!("if (x > 0.5) {{ {v} = {v} + 1 }} else {{ {v} = {v} + 10 }}") });
            c.stmts.push(S::Expr(E::If(Box::new(cond), Box::new(then), Box::new(els))));
        }
        26 | 27 => {
            // recursion through a top-level function: fixed depth, and a depth that follows the input (clamped to 0..6)
            let r = c.fresh("r");
            c.need("fact");
            let arg = if o == 26 { num(3.0) } else { E::Math("min".into(), vec![E::Math("max".into(), vec![var(DSP_IN), num(0.0)]), num(6.0)]) };
            c.ops.push(format!("let {r} = fact({})", pe(&arg, 0)));
            let s = c.sites.next();
            c.stmts.push(let_(&r, call("fact", vec![arg], s)));
            c.vars.push((r, Ty::F, false));
        }
        39 => {
            // a getter / setter pair over one local: the getter only reads the captured variable, the setter assigns it
            let v = c.fresh("c");
            let (inc, get) = (c.fresh("inc"), c.fresh("get"));
            let (r1, r2, r3) = (c.fresh("r"), c.fresh("r"), c.fresh("r"));
            c.ops.push(format!("let {v} = {}; let {inc} = | | {{ {v} = {v} + 1; {v} }}; let {get} = |y| {v} * 10 + y; let {r1} = {get}(1); let {r2} = {inc}(); let {r3} = {get}(1)", pe(&a, 0)));
            c.stmts.push(let_(&v, a.clone()));
            let body = E::Block(vec![S::Assign(v.clone(), bin("+", var(&v), num(1.0)))], Some(Box::new(var(&v))));
            c.stmts.push(let_(&inc, E::Lambda(vec![], Box::new(body))));
            c.stmts.push(let_(&get, E::Lambda(vec!["y".into()], Box::new(bin("+", bin("*", var(&v), num(10.0)), var("y"))))));
            let (s1, s2, s3) = (c.sites.next(), c.sites.next(), c.sites.next());
            c.stmts.push(let_(&r1, call(&get, vec![num(1.0)], s1)));
            c.stmts.push(let_(&r2, call(&inc, vec![], s2)));
            c.stmts.push(let_(&r3, call(&get, vec![num(1.0)], s3)));
            c.vars.push((v, Ty::F, true));
            c.vars.push((inc, Ty::C0, false));
            c.vars.push((get, Ty::C1, false));
            c.vars.push((r1, Ty::F, false));
            c.vars.push((r2, Ty::F, false));
            c.vars.push((r3, Ty::F, false));
        }
        40 | 41 => {
            // the defining frame assigns a local after a closure that only reads it was made (40: before the first call;
            // 41: between two calls)
            let v = c.fresh("c");
            let f = c.fresh("f");
            let (r1, r2) = (c.fresh("r"), c.fresh("r"));
            c.stmts.push(let_(&v, a.clone()));
            c.stmts.push(let_(&f, E::Lambda(vec!["y".into()], Box::new(bin("+", var("y"), var(&v))))));
            let (s1, s2) = (c.sites.next(), c.sites.next());
            if o == 40 {
                c.ops.push(format!("let {v} = {}; let {f} = |y| y + {v}; {v} = {v} * 2 + 1; let {r1} = {f}(1)", pe(&a, 0)));
                c.stmts.push(S::Assign(v.clone(), bin("+", bin("*", var(&v), num(2.0)), num(1.0))));
                c.stmts.push(let_(&r1, call(&f, vec![num(1.0)], s1)));
            } else {
                c.ops.push(format!("let {v} = {}; let {f} = |y| y + {v}; let {r1} = {f}(1); {v} = {v} + 5; let {r2} = {f}(1)", pe(&a, 0)));
                c.stmts.push(let_(&r1, call(&f, vec![num(1.0)], s1)));
                c.stmts.push(S::Assign(v.clone(), bin("+", var(&v), num(5.0))));
                c.stmts.push(let_(&r2, call(&f, vec![num(1.0)], s2)));
                c.vars.push((r2, Ty::F, false));
            }
            c.vars.push((v, Ty::F, true));
            c.vars.push((f, Ty::C1, false));
            c.vars.push((r1, Ty::F, false));
        }
        42 => {
            // a closure nested three levels deep assigns a local of the outermost frame
            let v = c.fresh("c");
            let f = c.fresh("f");
            let r = c.fresh("r");
            c.ops.push(format!("let {v} = {}; let {f} = | | {{ let g = | | {{ let h = | | {{ {v} = {v} + 1; {v} }}; h() }}; g() }}; let {r} = {f}() + {v} * 100", pe(&a, 0)));
            c.stmts.push(let_(&v, a.clone()));
            let (s1, s2, s3) = (c.sites.next(), c.sites.next(), c.sites.next());
            let h_body = E::Block(vec![S::Assign(v.clone(), bin("+", var(&v), num(1.0)))], Some(Box::new(var(&v))));
            let g_body = E::Block(vec![let_("h", E::Lambda(vec![], Box::new(h_body)))], Some(Box::new(call("h", vec![], s1))));
            let f_body = E::Block(vec![let_("g", E::Lambda(vec![], Box::new(g_body)))], Some(Box::new(call("g", vec![], s2))));
            c.stmts.push(let_(&f, E::Lambda(vec![], Box::new(f_body))));
            c.stmts.push(let_(&r, bin("+", call(&f, vec![], s3), bin("*", var(&v), num(100.0)))));
            c.vars.push((v, Ty::F, true));
            c.vars.push((f, Ty::C0, false));
            c.vars.push((r, Ty::F, false));
        }
        23 => {
            // named stateful function passed as a value
            let r = c.fresh("r");
            c.need("cnt");
            c.need("apply");
            c.ops.push(format!("let {r} = apply(cnt, 1.0)"));
            let s = c.sites.next();
            c.stmts.push(let_(&r, call("apply", vec![var("cnt"), num(1.0)], s)));
            c.vars.push((r, Ty::F, false));
        }
        _ => unreachable!(),
    }
    Some(())
}
pub fn fc_decode(idx: u64, k: u32) -> Option<Gen> {
    let digits = seq_decode(idx, FC_RADIX, k);
    let mut c = CCtx { vars: vec![], stmts: vec![], sites: Sites(100), ops: vec![], n: 0, need: vec![] };
    for d in digits {
        fc_stmt(&mut c, d)?;
    }
    let outs: Vec<String> = c.vars.iter().filter(|v| v.1 == Ty::F).map(|v| v.0.clone()).collect();
    if outs.is_empty() {
        return None;
    }
    let outs: Vec<String> = outs.iter().rev().take(4).rev().cloned().collect();
    let (ret, shape) = if outs.len() == 1 {
        (var(&outs[0]), Shape::F)
    } else {
        (E::Tuple(outs.iter().map(|o| var(o)).collect()), Shape::T(outs.iter().map(|_| Shape::F).collect()))
    };
    let mut hs = Sites(0);
    let mut items = vec![];
    for h in ["cnt", "apply", "sapply", "mkadd", "mkcounter", "gc", "gadd", "idf", "fact", "mkrec", "grec"] {
        if !c.need.contains(&h) {
            continue;
        }
        match h {
            "cnt" => items.push(helper("cnt", &mut hs)),
            "apply" => items.push(fdef("apply", &["f", "a"], call("f", vec![var("a")], hs.next()), Shape::F)),
            "sapply" => items.push(fdef("sapply", &["f", "a"], bin("+", E::SelfV, call("f", vec![var("a")], hs.next())), Shape::F)),
            "mkadd" => items.push(fdef("mkadd", &["n"], E::Lambda(vec!["y".into()], Box::new(bin("+", var("y"), var("n")))), Shape::F)),
            "mkcounter" => items.push(mkcounter()),
            "idf" => items.push(fdef("idf", &["a"], var("a"), Shape::F)),
            "fact" => {
                let s = hs.next();
                items.push(fdef("fact", &["n"], iff(bin(">", var("n"), num(0.5)), bin("*", var("n"), call("fact", vec![bin("-", var("n"), num(1.0))], s)), num(1.0)), Shape::F))
            }
            "gc" => {
                if !c.need.contains(&"mkcounter") {
                    items.push(mkcounter());
                }
                items.push(Item::Let(Pat::Var("gc".into()), call("mkcounter", vec![], hs.next())));
            }
            "mkrec" => items.push(fdef(
                "mkrec",
                &["a"],
                E::Record(vec![("gain".into(), num(2.0)), ("f".into(), E::Lambda(vec!["y".into()], Box::new(bin("+", var("y"), var("a")))))]),
                Shape::F,
            )),
            "grec" => items.push(Item::Let(Pat::Var("grec".into()), call("mkrec", vec![num(3.0)], hs.next()))),
            "gadd" => {
                items.push(Item::Let(Pat::Var("gbase".into()), num(10.0)));
                items.push(Item::Let(Pat::Var("gadd".into()), E::Lambda(vec!["y".into()], Box::new(bin("+", var("y"), var("gbase"))))));
            }
            _ => {}
        }
    }
    items.push(fdef("dsp", &[DSP_IN], E::Block(c.stmts, Some(Box::new(ret))), shape));
    Some(Gen { prog: Prog { items }, family: "FC", inputs: 1, ops: c.ops, ft: None, text: None })
}
fn mkcounter() -> Item {
    fdef(
        "mkcounter",
        &[],
        block(
            vec![
                let_("c", num(0.0)),
                let_("up", E::Lambda(vec![], Box::new(E::Block(vec![S::Assign("c".into(), bin("+", var("c"), num(1.0)))], Some(Box::new(var("c"))))))),
            ],
            var("up"),
        ),
        Shape::F,
    )
}

// ================================================================== FA: aggregates

const FA_RADIX: u64 = 56;
pub fn fa_count(k: u32) -> u64 {
    seq_count(FA_RADIX, k)
}
#[derive(Clone, Copy, PartialEq)]
enum ATy {
    F,
    T2,
    T3n, // (F,(F,F))
    Rec, // {a,b}
    RecT, // {a:(F,F), b:F}
    T1,   // (F,)
    Rec1, // {a}
    Arr,  // [F, F, F]
    ArrT, // [(F,F), (F,F)]
}
struct ACtx {
    vars: Vec<(String, ATy)>,
    stmts: Vec<S>,
    sites: Sites,
    ops: Vec<String>,
    n: usize,
    need: Vec<&'static str>,
}
impl ACtx {
    fn last(&self, t: ATy) -> Option<String> {
        self.vars.iter().rev().find(|v| v.1 == t).map(|v| v.0.clone())
    }
    fn f(&self, i: u64) -> Option<E> {
        // float operand: 0 = x, 1 = last float var, 2 = 2nd last float var / 2.0
        let fs: Vec<&String> = self.vars.iter().filter(|v| v.1 == ATy::F).map(|v| &v.0).collect();
        Some(match i {
            0 => var(DSP_IN),
            1 => var(fs.last()?),
            _ => {
                if fs.len() >= 2 { var(fs[fs.len() - 2]) } else { num(2.0) }
            }
        })
    }
    fn fresh(&mut self, p: &str) -> String {
        self.n += 1;
        format!("{p}{}", self.n)
    }
    fn need(&mut self, h: &'static str) {
        if !self.need.contains(&h) {
            self.need.push(h);
        }
    }
    fn push(&mut self, v: String, t: ATy, e: E, op: String) {
        self.ops.push(op);
        self.stmts.push(let_(&v, e));
        self.vars.push((v, t));
    }
}
fn fa_stmt(c: &mut ACtx, o: u64) -> Option<()> {
    match o {
        0 => {
            let v = c.fresh("t");
            let e = E::Tuple(vec![c.f(0)?, c.f(2)?]);
            c.push(v, ATy::T2, e, "tuple2".into());
        }
        1 => {
            let v = c.fresh("t");
            let e = E::Tuple(vec![c.f(1)?, bin("+", c.f(0)?, num(1.0))]);
            c.push(v, ATy::T2, e, "tuple2'".into());
        }
        2 | 3 => {
            let t = c.last(ATy::T2)?;
            let v = c.fresh("p");
            c.push(v, ATy::F, E::Proj(Box::new(var(&t)), (o - 2) as usize), format!("proj {}", o - 2));
        }
        4 => {
            let t = c.last(ATy::T2)?;
            let (p, q) = (c.fresh("p"), c.fresh("p"));
            c.ops.push("destructure2".into());
            c.stmts.push(S::Let(Pat::Tuple(vec![Pat::Var(p.clone()), Pat::Var(q.clone())]), var(&t)));
            c.vars.push((p, ATy::F));
            c.vars.push((q, ATy::F));
        }
        5 => {
            let v = c.fresh("n");
            let e = E::Tuple(vec![c.f(0)?, E::Tuple(vec![c.f(2)?, num(3.0)])]);
            c.push(v, ATy::T3n, e, "nested tuple".into());
        }
        6 => {
            let t = c.last(ATy::T3n)?;
            let (p, q, r) = (c.fresh("p"), c.fresh("p"), c.fresh("p"));
            c.ops.push("destructure nested".into());
            c.stmts.push(S::Let(Pat::Tuple(vec![Pat::Var(p.clone()), Pat::Tuple(vec![Pat::Var(q.clone()), Pat::Var(r.clone())])]), var(&t)));
            c.vars.push((p, ATy::F));
            c.vars.push((q, ATy::F));
            c.vars.push((r, ATy::F));
        }
        7 => {
            let v = c.fresh("r");
            let e = E::Record(vec![("a".into(), c.f(0)?), ("b".into(), c.f(2)?)]);
            c.push(v, ATy::Rec, e, "record".into());
        }
        8 | 9 => {
            let r = c.last(ATy::Rec)?;
            let v = c.fresh("p");
            c.push(v, ATy::F, E::Field(Box::new(var(&r)), if o == 8 { "a" } else { "b" }.into()), "field".into());
        }
        10 => {
            c.need("pairf");
            let v = c.fresh("t");
            let s = c.sites.next();
            let e = call("pairf", vec![c.f(0)?, c.f(2)?], s);
            c.push(v, ATy::T2, e, "call pairf".into());
        }
        11 => {
            c.need("sw");
            let t = c.last(ATy::T2)?;
            let v = c.fresh("t");
            let s = c.sites.next();
            c.push(v, ATy::T2, call("sw", vec![var(&t)], s), "call sw(tuple)".into());
        }
        12 | 13 => {
            // multi-word if (phi of tuples)
            let t = c.last(ATy::T2)?;
            let cond = if o == 12 { var(DSP_IN) } else { bin("%", E::Now, num(2.0)) };
            let v = c.fresh("t");
            let e = iff(cond, var(&t), E::Tuple(vec![num(7.0), c.f(0)?]));
            c.push(v, ATy::T2, e, "if tuple".into());
        }
        14 => {
            c.need("cnt2");
            let v = c.fresh("t");
            let s = c.sites.next();
            let e = call("cnt2", vec![c.f(0)?], s);
            c.push(v, ATy::T2, e, "call cnt2 (tuple self)".into());
        }
        15 => {
            c.need("sumrec");
            let r = c.last(ATy::Rec)?;
            let v = c.fresh("p");
            let s = c.sites.next();
            c.push(v, ATy::F, call("sumrec", vec![var(&r)], s), "call sumrec(record)".into());
        }
        16 => {
            let v = c.fresh("p");
            let e = bin("*", c.f(1)?, c.f(2)?);
            c.push(v, ATy::F, e, "arith".into());
        }
        17 => {
            c.need("mt");
            let t = c.last(ATy::T2)?;
            let v = c.fresh("t");
            let s = c.sites.next();
            c.push(v, ATy::T2, call("mt", vec![var(&t)], s), "call mt(tuple) (mem on both)".into());
        }
        18 => {
            // record whose first field is a tuple: the following field does not sit at word offset 1
            let v = c.fresh("r");
            let e = E::Record(vec![("a".into(), E::Tuple(vec![c.f(0)?, c.f(2)?])), ("b".into(), bin("+", c.f(0)?, num(1000.0)))]);
            c.push(v, ATy::RecT, e, "record with tuple field first".into());
        }
        19 => {
            let r = c.last(ATy::RecT)?;
            let v = c.fresh("p");
            let e = bin("+", E::Field(Box::new(var(&r)), "b".into()), bin("*", E::Proj(Box::new(E::Field(Box::new(var(&r)), "a".into())), 1), num(10.0)));
            c.push(v, ATy::F, e, "r.b + r.a.1 * 10".into());
        }
        20 => {
            c.need("pick");
            let r = c.last(ATy::RecT)?;
            let v = c.fresh("t");
            let s = c.sites.next();
            c.push(v, ATy::T2, call("pick", vec![var(&r)], s), "call pick(record with tuple field)".into());
        }
        28 | 29 => {
            // record destructuring: in declaration order, and reversed
            let r = c.last(ATy::Rec)?;
            let (p, q) = (c.fresh("p"), c.fresh("p"));
            let mut fs = vec![("a".to_string(), Pat::Var(p.clone())), ("b".to_string(), Pat::Var(q.clone()))];
            if o == 29 {
                fs.reverse();
            }
            c.ops.push(if o == 28 { "let {a = p, b = q} = record" } else { "let {b = q, a = p} = record" }.into());
            c.stmts.push(S::Let(Pat::Record(fs), var(&r)));
            c.vars.push((p, ATy::F));
            c.vars.push((q, ATy::F));
        }
        30 => {
            // record pattern with a nested tuple pattern, later field first
            let r = c.last(ATy::RecT)?;
            let (p, q, w) = (c.fresh("p"), c.fresh("p"), c.fresh("p"));
            c.ops.push("let {b = w, a = (p, q)} = record with tuple field".into());
            c.stmts.push(S::Let(Pat::Record(vec![("b".to_string(), Pat::Var(w.clone())), ("a".to_string(), Pat::Tuple(vec![Pat::Var(p.clone()), Pat::Var(q.clone())]))]), var(&r)));
            c.vars.push((p, ATy::F));
            c.vars.push((q, ATy::F));
            c.vars.push((w, ATy::F));
        }
        31 | 32 => {
            // assignment to one field of a record held by a local
            let r = c.last(ATy::Rec)?;
            let f = if o == 31 { "a" } else { "b" };
            let e = bin("+", c.f(0)?, num(if o == 31 { 100.0 } else { 200.0 }));
            c.ops.push(format!("record.{f} = a + k"));
            c.stmts.push(S::Assign(format!("{r}.{f}"), e));
        }
        33 => {
            // record update: a copy with the later field replaced first
            let r = c.last(ATy::Rec)?;
            let v = c.fresh("r");
            let e = E::Record(vec![("<-".into(), var(&r)), ("b".into(), bin("+", c.f(0)?, num(300.0))), ("a".into(), c.f(2)?)]);
            c.push(v, ATy::Rec, e, "{record <- b = .., a = ..}".into());
        }
        44 => {
            // a default value that refers to the parameter to its left
            c.need("defb");
            let v = c.fresh("p");
            let s = c.sites.next();
            c.push(v, ATy::F, E::CallPack("defb".into(), vec![("a".into(), c.f(0)?)], s), "defb({a = a}) with fn defb(a, b = a * 2)".into());
        }
        46 | 47 => {
            // a required parameter between two defaulted ones; the call relies on the later default
            c.need("defm");
            let v = c.fresh("p");
            let s = c.sites.next();
            let (fields, what) = if o == 46 {
                (vec![("a".to_string(), c.f(0)?), ("..".to_string(), num(0.0))], "defm({a = a, ..}) with fn defm(b = 5, a, c = 7)")
            } else {
                (vec![("a".to_string(), c.f(0)?), ("b".to_string(), c.f(2)?), ("..".to_string(), num(0.0))], "defm({a = a, b = b, ..}) with fn defm(b = 5, a, c = 7)")
            };
            c.push(v, ATy::F, E::CallPack("defm".into(), fields, s), what.into());
        }
        45 => {
            // a default value that is a closed expression with operators and a builtin call
            c.need("defc");
            let v = c.fresh("p");
            let s = c.sites.next();
            c.push(v, ATy::F, E::CallPack("defc".into(), vec![("a".into(), c.f(0)?)], s), "defc({a = a}) with fn defc(a, b = 1 + cos(0) * 2)".into());
        }
        51 => {
            // a placeholder in front of a named binder
            let t = c.last(ATy::T2)?;
            let q = c.fresh("p");
            c.ops.push("let (_, q) = pair".into());
            c.stmts.push(S::Let(Pat::Tuple(vec![Pat::Var("_".into()), Pat::Var(q.clone())]), var(&t)));
            c.vars.push((q, ATy::F));
        }
        52 | 53 => {
            // placeholders inside a nested pattern: (p, (_, r)) and (_, (q, _))
            let t = c.last(ATy::T3n)?;
            let (p, r) = (c.fresh("p"), c.fresh("p"));
            if o == 52 {
                c.ops.push("let (p, (_, r)) = nested".into());
                c.stmts.push(S::Let(Pat::Tuple(vec![Pat::Var(p.clone()), Pat::Tuple(vec![Pat::Var("_".into()), Pat::Var(r.clone())])]), var(&t)));
                c.vars.push((p, ATy::F));
                c.vars.push((r, ATy::F));
            } else {
                c.ops.push("let (_, (q, _)) = nested".into());
                c.stmts.push(S::Let(Pat::Tuple(vec![Pat::Var("_".into()), Pat::Tuple(vec![Pat::Var(p.clone()), Pat::Var("_".into())])]), var(&t)));
                c.vars.push((p, ATy::F));
            }
        }
        54 | 55 => {
            // an array of pairs read beyond its end (constant index) and with an index that follows the input
            let a = c.last(ATy::ArrT)?;
            let (p, q) = (c.fresh("p"), c.fresh("p"));
            let (i, what) = if o == 54 { (num(7.0), "let (p, q) = array_of_pairs[7] (beyond the end)") } else { (c.f(0)?, "let (p, q) = array_of_pairs[a]") };
            c.ops.push(what.into());
            c.stmts.push(S::Let(Pat::Tuple(vec![Pat::Var(p.clone()), Pat::Var(q.clone())]), E::Index(Box::new(var(&a)), Box::new(i))));
            c.vars.push((p, ATy::F));
            c.vars.push((q, ATy::F));
        }
        48 => {
            // a tuple projection used directly as the time operand of a delay
            let t = c.last(ATy::T2)?;
            let v = c.fresh("p");
            let s = c.sites.next();
            c.push(v, ATy::F, E::Delay(8.0, Box::new(c.f(0)?), Box::new(E::Proj(Box::new(var(&t)), 1)), s), "delay(8, a, pair.1)".into());
        }
        49 => {
            // a tuple projection used directly as an array index
            let t = c.last(ATy::T2)?;
            let a = c.last(ATy::Arr)?;
            let v = c.fresh("p");
            c.push(v, ATy::F, E::Index(Box::new(var(&a)), Box::new(E::Proj(Box::new(var(&t)), 1))), "array[pair.1]".into());
        }
        50 => {
            // tuple projections as the two arms of an if (operands of the merge)
            let t = c.last(ATy::T2)?;
            let v = c.fresh("p");
            let e = E::If(Box::new(bin(">", c.f(0)?, num(0.5))), Box::new(E::Proj(Box::new(var(&t)), 0)), Box::new(E::Proj(Box::new(var(&t)), 1)));
            c.push(v, ATy::F, e, "if (a > 0.5) pair.0 else pair.1".into());
        }
        40 => {
            let v = c.fresh("t");
            c.push(v, ATy::T1, E::Tuple(vec![c.f(0)?]), "one-element tuple (a,)".into());
        }
        41 => {
            let t = c.last(ATy::T1)?;
            let v = c.fresh("p");
            c.push(v, ATy::F, E::Proj(Box::new(var(&t)), 0), "one-element tuple .0".into());
        }
        42 => {
            let v = c.fresh("r");
            c.push(v, ATy::Rec1, E::Record(vec![("a".into(), c.f(0)?)]), "single-field record {a = a}".into());
        }
        43 => {
            let r = c.last(ATy::Rec1)?;
            let v = c.fresh("p");
            c.push(v, ATy::F, E::Field(Box::new(var(&r)), "a".into()), "single-field record .a".into());
        }
        34 => {
            let v = c.fresh("a");
            let e = E::Array(vec![c.f(0)?, c.f(2)?, num(3.0)]);
            c.push(v, ATy::Arr, e, "array of three floats".into());
        }
        35..=37 => {
            // constant index, index computed from the input (may be fractional or out of range), index beyond the end
            let a = c.last(ATy::Arr)?;
            let v = c.fresh("p");
            let (i, what) = match o {
                35 => (num(1.0), "array[1]"),
                36 => (c.f(0)?, "array[a]"),
                _ => (num(7.0), "array[7] (beyond the end)"),
            };
            c.push(v, ATy::F, E::Index(Box::new(var(&a)), Box::new(i)), what.into());
        }
        38 => {
            let v = c.fresh("a");
            let e = E::Array(vec![E::Tuple(vec![c.f(0)?, num(1.0)]), E::Tuple(vec![num(2.0), c.f(2)?])]);
            c.push(v, ATy::ArrT, e, "array of two pairs".into());
        }
        39 => {
            let a = c.last(ATy::ArrT)?;
            let (p, q) = (c.fresh("p"), c.fresh("p"));
            c.ops.push("let (p, q) = array_of_pairs[1]".into());
            c.stmts.push(S::Let(Pat::Tuple(vec![Pat::Var(p.clone()), Pat::Var(q.clone())]), E::Index(Box::new(var(&a)), Box::new(num(1.0)))));
            c.vars.push((p, ATy::F));
            c.vars.push((q, ATy::F));
        }
        21..=27 => {
            // default arguments and parameter packs (a trailing field named ".." prints the open form `{q = a, ..}`)
            c.need("defa");
            let v = c.fresh("p");
            let s = c.sites.next();
            let (e, what) = match o {
                21 => (E::CallPack("defa".into(), vec![], s), "defa({..})"),
                22 => (E::CallPack("defa".into(), vec![("q".into(), c.f(0)?)], s), "defa({q = a})"),
                23 => (E::CallPack("defa".into(), vec![("p".into(), c.f(1)?)], s), "defa({p = a})"),
                24 => (E::CallPack("defa".into(), vec![("q".into(), c.f(0)?), ("p".into(), c.f(2)?)], s), "defa({q = a, p = b})"),
                25 => (call("defa", vec![c.f(0)?, c.f(2)?], s), "defa(a, b)"),
                26 => (E::CallPack("defa".into(), vec![("q".into(), bin("+", c.f(0)?, num(1.0))), ("..".into(), num(0.0))], s), "defa({q = a + 1, ..})"),
                _ => (E::CallPack("defa".into(), vec![("p".into(), c.f(1)?), ("..".into(), num(0.0))], s), "defa({p = a, ..})"),
            };
            c.push(v, ATy::F, e, what.into());
        }
        _ => unreachable!(),
    }
    Some(())
}
pub fn fa_decode(idx: u64, k: u32) -> Option<Gen> {
    let digits = seq_decode(idx, FA_RADIX, k);
    let mut c = ACtx { vars: vec![], stmts: vec![], sites: Sites(100), ops: vec![], n: 0, need: vec![] };
    for d in digits {
        fa_stmt(&mut c, d)?;
    }
    // output: last aggregate (flattened) or last float
    let (name, ty) = c.vars.last()?.clone();
    let (ret, shape) = match ty {
        ATy::F => (var(&name), Shape::F),
        ATy::T2 => (var(&name), Shape::T(vec![Shape::F, Shape::F])),
        ATy::T3n => (
            E::Tuple(vec![E::Proj(Box::new(var(&name)), 0), E::Proj(Box::new(E::Proj(Box::new(var(&name)), 1)), 0), E::Proj(Box::new(E::Proj(Box::new(var(&name)), 1)), 1)]),
            Shape::T(vec![Shape::F, Shape::F, Shape::F]),
        ),
        ATy::Rec => (E::Tuple(vec![E::Field(Box::new(var(&name)), "a".into()), E::Field(Box::new(var(&name)), "b".into())]), Shape::T(vec![Shape::F, Shape::F])),
        ATy::RecT => (
            E::Tuple(vec![E::Proj(Box::new(E::Field(Box::new(var(&name)), "a".into())), 0), E::Proj(Box::new(E::Field(Box::new(var(&name)), "a".into())), 1), E::Field(Box::new(var(&name)), "b".into())]),
            Shape::T(vec![Shape::F, Shape::F, Shape::F]),
        ),
        // one-word aggregates are returned through their only member (dsp's result stays a float)
        ATy::T1 => (E::Proj(Box::new(var(&name)), 0), Shape::F),
        ATy::Rec1 => (E::Field(Box::new(var(&name)), "a".into()), Shape::F),
        ATy::Arr => (
            E::Tuple((0..3).map(|i| E::Index(Box::new(var(&name)), Box::new(num(i as f64)))).collect()),
            Shape::T(vec![Shape::F, Shape::F, Shape::F]),
        ),
        ATy::ArrT => (
            E::Tuple(vec![E::Proj(Box::new(E::Index(Box::new(var(&name)), Box::new(num(0.0)))), 0), E::Proj(Box::new(E::Index(Box::new(var(&name)), Box::new(num(1.0)))), 1)]),
            Shape::T(vec![Shape::F, Shape::F]),
        ),
    };
    let mut hs = Sites(0);
    let mut items = vec![];
    let t2 = || Shape::T(vec![Shape::F, Shape::F]);
    for h in c.need.clone() {
        match h {
            "pairf" => items.push(fdef("pairf", &["a", "b"], E::Tuple(vec![bin("+", var("a"), var("b")), bin("*", var("a"), var("b"))]), t2())),
            "sw" => items.push(fdef("sw", &["t:(float,float)"], E::Tuple(vec![E::Proj(Box::new(var("t")), 1), E::Proj(Box::new(var("t")), 0)]), t2())),
            "cnt2" => items.push(helper("cnt2", &mut hs)),
            "sumrec" => items.push(fdef("sumrec", &["r:{a:float,b:float}"], bin("-", E::Field(Box::new(var("r")), "a".into()), E::Field(Box::new(var("r")), "b".into())), Shape::F)),
            "defa" => items.push(Item::Fn(FnDef {
                name: "defa".into(),
                params: vec![("p".into(), Some(num(2.0))), ("q".into(), Some(num(3.0)))],
                body: bin("+", bin("*", var("p"), num(10.0)), bin("+", var("q"), E::SelfV)),
                ret: Shape::F,
            })),
            "defm" => items.push(Item::Fn(FnDef {
                name: "defm".into(),
                params: vec![("b".into(), Some(num(5.0))), ("a".into(), None), ("c".into(), Some(num(7.0)))],
                body: bin("+", bin("*", var("b"), num(100.0)), bin("+", bin("*", var("a"), num(10.0)), var("c"))),
                ret: Shape::F,
            })),
            "defb" => items.push(Item::Fn(FnDef {
                name: "defb".into(),
                params: vec![("a".into(), None), ("b".into(), Some(bin("*", var("a"), num(2.0))))],
                body: bin("+", bin("*", var("a"), num(10.0)), var("b")),
                ret: Shape::F,
            })),
            "defc" => items.push(Item::Fn(FnDef {
                name: "defc".into(),
                params: vec![("a".into(), None), ("b".into(), Some(bin("+", num(1.0), bin("*", E::Math("cos".into(), vec![num(0.0)]), num(2.0)))))],
                body: bin("+", bin("*", var("a"), num(10.0)), var("b")),
                ret: Shape::F,
            })),
            "pick" => items.push(fdef(
                "pick",
                &["r:{a:(float,float), b:float}"],
                E::Tuple(vec![bin("+", bin("*", E::Proj(Box::new(E::Field(Box::new(var("r")), "a".into())), 0), num(100.0)), E::Proj(Box::new(E::Field(Box::new(var("r")), "a".into())), 1)), E::Field(Box::new(var("r")), "b".into())]),
                t2(),
            )),
            "mt" => items.push(fdef(
                "mt",
                &["t:(float,float)"],
                E::Tuple(vec![E::Mem(Box::new(E::Proj(Box::new(var("t")), 0)), hs.next()), E::Mem(Box::new(E::Proj(Box::new(var("t")), 1)), hs.next())]),
                t2(),
            )),
            _ => {}
        }
    }
    items.push(fdef("dsp", &[DSP_IN], E::Block(c.stmts, Some(Box::new(ret))), shape));
    Some(Gen { prog: Prog { items }, family: "FA", inputs: 1, ops: c.ops, ft: None, text: None })
}

// ================================================================== FT: scheduled tasks

/// one task: how it is first scheduled, and whether it reschedules itself
#[derive(Clone, Debug, PartialEq)]
pub struct FtTask {
    /// scheduled from global scope at this time (None: scheduled by the previous task, `chain_delay` after it runs)
    pub at: Option<f64>,
    pub chain_delay: f64,
    /// self-rescheduling period (0 = runs once)
    pub period: f64,
    /// first scheduled by dsp itself, at sample 2, this long ahead (then `at` is None and nothing chains to it)
    pub from_dsp: Option<f64>,
}
#[derive(Clone, Debug, PartialEq)]
pub struct FtSpec {
    pub tasks: Vec<FtTask>,
    /// FL programs: requests `(closure j, time)` for two closure *values* bound inside a function; the same value may be
    /// requested several times, also for one sample (each request is one task)
    pub local: Vec<(usize, f64)>,
    /// FR programs: (n, issued by a task at sample 1 rather than by global code)
    pub burst: Option<(u64, bool)>,
}
/// (the last time lies less than 1e-6 below an integer: it still truncates to 2)
const FT_TIMES: [f64; 5] = [1.0, 2.0, 3.0, 2.5, 2.9999999];
const FT_PERIODS: [f64; 4] = [0.0, 1.0, 2.0, 3.0];
const NT: u64 = FT_TIMES.len() as u64;
const FT_RADIX: u64 = NT * 4 + NT + NT;
pub fn ft_count(k: u32) -> u64 {
    seq_count(FT_RADIX, k)
}
pub fn ft_decode(idx: u64, k: u32) -> Option<Gen> {
    let digits = seq_decode(idx, FT_RADIX, k);
    let mut tasks = vec![];
    for (i, d) in digits.iter().enumerate() {
        if *d < NT * 4 {
            tasks.push(FtTask { at: Some(FT_TIMES[(*d / 4) as usize]), chain_delay: 0.0, period: FT_PERIODS[(*d % 4) as usize], from_dsp: None });
        } else if *d < NT * 5 {
            if i == 0 {
                return None;
            }
            tasks.push(FtTask { at: None, chain_delay: FT_TIMES[(*d - NT * 4) as usize], period: 0.0, from_dsp: None });
        } else {
            tasks.push(FtTask { at: None, chain_delay: 0.0, period: 0.0, from_dsp: Some(FT_TIMES[(*d - NT * 5) as usize]) });
        }
    }
    let spec = FtSpec { tasks, local: vec![], burst: None };
    let ops = spec.tasks.iter().enumerate().map(|(i, t)| format!("task{i}: {t:?}")).collect();
    Some(Gen { prog: Prog::default(), family: "FT", inputs: 0, ops, ft: Some(spec), text: None })
}
const FL_RADIX: u64 = 2 * NT;
pub fn fl_count(k: u32) -> u64 {
    seq_count(FL_RADIX, k)
}
/// FL: one function binds two closures (each counts its runs in a captured local) and issues 1..=k requests
/// `tick_j@time`, then returns a reader closure; every sequence of requests over 2 closures x 4 times
pub fn fl_decode(idx: u64, k: u32) -> Option<Gen> {
    let digits = seq_decode(idx, FL_RADIX, k);
    let local: Vec<(usize, f64)> = digits.iter().map(|d| ((*d / NT) as usize, FT_TIMES[(*d % NT) as usize])).collect();
    let ops = local.iter().map(|(j, t)| format!("tick{j}@{}", fmt_num(*t))).collect();
    Some(Gen { prog: Prog::default(), family: "FL", inputs: 0, ops, ft: Some(FtSpec { tasks: vec![], local, burst: None }), text: None })
}
impl FtSpec {
    fn local_source(&self) -> String {
        let mut o = String::from("fn make(){\n");
        for j in 0..2 {
            o.push_str(&format!("  let c{j} = 0.0\n  let t{j} = 0.0 - 1.0\n"));
        }
        for j in 0..2 {
            o.push_str(&format!("  let tick{j} = | | {{\n    c{j} = c{j} + 1.0\n    t{j} = now\n  }}\n"));
        }
        for (j, t) in &self.local {
            o.push_str(&format!("  tick{j}@{}\n", fmt_num(*t)));
        }
        o.push_str("  | | (c0, t0, c1, t1)\n}\nlet g = make()\nfn dsp(){\n  g()\n}\n");
        o
    }
    fn local_reference(&self, nsamples: usize) -> Vec<Vec<f64>> {
        let mut c = [0.0f64; 2];
        let mut tt = [-1.0f64; 2];
        let mut out = vec![];
        for s in 0..nsamples {
            for (j, w) in &self.local {
                if w.floor() as usize == s {
                    c[*j] += 1.0;
                    tt[*j] = s as f64;
                }
            }
            out.push(vec![c[0], tt[0], c[1], tt[1]]);
        }
        out
    }
    pub fn source(&self) -> String {
        if !self.local.is_empty() {
            return self.local_source();
        }
        let mut o = String::new();
        let n = self.tasks.len();
        for i in 0..n {
            o.push_str(&format!("let c{i} = 0.0\nlet t{i} = 0.0 - 1.0\n"));
        }
        // later tasks first so that a chaining task can name its successor
        for i in (0..n).rev() {
            let t = &self.tasks[i];
            o.push_str(&format!("fn task{i}(){{\n  c{i} = c{i} + 1.0\n  t{i} = now\n"));
            if i + 1 < n && self.chained(i + 1) {
                o.push_str(&format!("  task{}@(now + {})\n", i + 1, fmt_num(self.tasks[i + 1].chain_delay)));
            }
            if t.period > 0.0 {
                o.push_str(&format!("  task{i}@(now + {})\n", fmt_num(t.period)));
            }
            o.push_str("}\n");
            if t.from_dsp.is_some() {
                o.push_str(&format!("fn trig{i}(d){{\n  task{i}@(now + d)\n  1.0\n}}\n"));
            }
        }
        for i in 0..n {
            if let Some(at) = self.tasks[i].at {
                o.push_str(&format!("task{i}@{}\n", fmt_num(at)));
            }
        }
        let outs: Vec<String> = (0..n).flat_map(|i| [format!("c{i}"), format!("t{i}")]).collect();
        o.push_str("fn dsp(){\n");
        for i in 0..n {
            if let Some(d) = self.tasks[i].from_dsp {
                o.push_str(&format!("  let r{i} = if (now == 2.0) trig{i}({}) else 0.0\n", fmt_num(d)));
            }
        }
        o.push_str(&format!("  ({})\n}}\n", outs.join(", ")));
        o
    }
    /// reference: a sorted multiset of (time, task); a task scheduled for time w runs exactly once,
    /// at the start of sample floor(w), before dsp of that sample
    pub fn reference(&self, nsamples: usize) -> Vec<Vec<f64>> {
        if let Some((n, from_task)) = self.burst {
            // one task per sample: samples 1..=n (global code, now = 0) or 2..=n+1 (task running at sample 1)
            let first = if from_task { 2 } else { 1 };
            return (0..nsamples as u64)
                .map(|s| {
                    let done = if s < first { 0 } else { (s - first + 1).min(n) };
                    let last = if done == 0 { -1.0 } else { (first + done - 1) as f64 };
                    vec![done as f64, last]
                })
                .collect();
        }
        if !self.local.is_empty() {
            return self.local_reference(nsamples);
        }
        let n = self.tasks.len();
        let mut c = vec![0.0; n];
        let mut tt = vec![-1.0; n];
        let mut pending: Vec<(f64, usize)> = vec![];
        for (i, t) in self.tasks.iter().enumerate() {
            if let Some(at) = t.at {
                pending.push((at, i));
            }
        }
        let mut out = vec![];
        for s in 0..nsamples {
            // run everything due at this sample (newly scheduled tasks are always in the future)
            loop {
                let due: Vec<(f64, usize)> = pending.iter().copied().filter(|(w, _)| w.floor() as usize == s).collect();
                if due.is_empty() {
                    break;
                }
                pending.retain(|(w, _)| w.floor() as usize != s);
                for (_, i) in due {
                    c[i] += 1.0;
                    tt[i] = s as f64;
                    if i + 1 < n && self.chained(i + 1) {
                        pending.push((s as f64 + self.tasks[i + 1].chain_delay, i + 1));
                    }
                    if self.tasks[i].period > 0.0 {
                        pending.push((s as f64 + self.tasks[i].period, i));
                    }
                }
            }
            out.push((0..n).flat_map(|i| [c[i], tt[i]]).collect());
            // dsp of sample 2 schedules the tasks it owns
            if s == 2 {
                for (i, t) in self.tasks.iter().enumerate() {
                    if let Some(d) = t.from_dsp {
                        pending.push((s as f64 + d, i));
                    }
                }
            }
        }
        out
    }
    /// task i is scheduled by task i-1 when that one runs
    fn chained(&self, i: usize) -> bool {
        self.tasks[i].at.is_none() && self.tasks[i].from_dsp.is_none()
    }
}

// ================================================================== FB: boxed recursive variants (text templates)

const FB_RADIX: u64 = 17;
/// every operation sequence in two variants: the list element is a float, or a pair of floats (a multi-word payload
/// element in front of the recursive reference)
pub fn fb_count(k: u32) -> u64 {
    3 * seq_count(FB_RADIX, k)
}
pub fn fb_decode(idx: u64, k: u32) -> Option<Gen> {
    if idx % 3 == 2 {
        return fb_decode_nested(idx / 3, k);
    }
    let wide = idx % 3 == 1;
    let digits = seq_decode(idx / 3, FB_RADIX, k);
    // element written from a float expression, the element type, and the float value of a bound element `h`
    let el = |a: &str| if wide { format!("({a}, 1.0)") } else { a.to_string() };
    let (elty, hval) = if wide { ("(float, float)", "(h.0 + h.1)") } else { ("float", "h") };
    let mut lists: Vec<String> = vec![];
    let mut floats: Vec<String> = vec!["x".into()];
    let mut clos: Vec<String> = vec![];
    let mut body = String::new();
    let mut ops = vec![if wide { "elements are pairs".to_string() } else { "elements are floats".to_string() }];
    let mut n = 0;
    let mut use_global = false;
    let mut picks: Vec<&str> = vec![];
    for d in digits {
        n += 1;
        let lastf = floats.last().unwrap().clone();
        match d {
            0 => {
                body.push_str(&format!("  let l{n} = Cons({}, Cons({}, Nil))\n", el(&lastf), el("1.0")));
                lists.push(format!("l{n}"));
                ops.push("new list".to_string());
            }
            1 => {
                let l = lists.last()?.clone();
                body.push_str(&format!("  let l{n} = Cons({}, {l})\n", el("2.0")));
                lists.push(format!("l{n}"));
                ops.push("cons onto last (sharing)".into());
            }
            2 => {
                let l = lists.last()?.clone();
                body.push_str(&format!("  let s{n} = sum({l})\n"));
                floats.push(format!("s{n}"));
                ops.push("sum(last)".into());
            }
            3 => {
                let l = lists.last()?.clone();
                body.push_str(&format!("  let s{n} = match {l} {{\n    Nil => 0.0,\n    Cons(h, tl) => {hval} + sum(tl)\n  }}\n"));
                floats.push(format!("s{n}"));
                ops.push("match last".into());
            }
            4 => {
                let l = lists.last()?.clone();
                body.push_str(&format!("  let f{n} = | | sum({l})\n"));
                clos.push(format!("f{n}"));
                ops.push("closure capturing list".into());
            }
            5 => {
                let f = clos.last()?.clone();
                body.push_str(&format!("  let s{n} = {f}()\n"));
                floats.push(format!("s{n}"));
                ops.push("call closure".into());
            }
            6 => {
                use_global = true;
                body.push_str(&format!("  let s{n} = sum(gl)\n"));
                floats.push(format!("s{n}"));
                ops.push("sum(global list)".into());
            }
            7 => {
                use_global = true;
                body.push_str(&format!("  let l{n} = Cons({}, gl)\n", el(&lastf)));
                lists.push(format!("l{n}"));
                ops.push("cons onto global list".into());
            }
            8 => {
                let l = lists.last()?.clone();
                body.push_str(&format!("  let l{n} = tail_or_nil({l})\n"));
                lists.push(format!("l{n}"));
                ops.push("tail".into());
            }
            9 => {
                let l = lists.last()?.clone();
                body.push_str(&format!("  let t{n} = ({l}, {lastf})\n  let s{n} = sum(t{n}.0) + t{n}.1\n"));
                floats.push(format!("s{n}"));
                ops.push("list in tuple".into());
            }
            10 => {
                body.push_str(&format!("  let l{n} = build({lastf} % 3.0)\n"));
                lists.push(format!("l{n}"));
                ops.push("recursive builder".into());
            }
            12 => {
                // a longer list that shares the last one as its tail lives in an inner scope only and is never
                // traversed there; the shared tail is traversed afterwards
                let l = lists.last()?.clone();
                body.push_str(&format!("  let u{n} = {{\n    let inner = Cons({}, {l})\n    {lastf} + 1.0\n  }}\n  let s{n} = u{n} + sum({l})\n", el("3.0")));
                floats.push(format!("s{n}"));
                ops.push("cons onto last in an inner scope (not traversed there), then sum(last)".into());
            }
            14..=16 => {
                // a long-lived global aggregate that holds the global list is destructured in a helper on every sample:
                // with a placeholder in the list's position (14), with a named binder there (15), as a record (16)
                use_global = true;
                let h = ["gpick", "gpickn", "rpick"][(d - 14) as usize];
                if !picks.contains(&h) {
                    picks.push(h);
                }
                body.push_str(&format!("  let s{n} = {h}() + {lastf}\n"));
                floats.push(format!("s{n}"));
                ops.push(["scalar half of a global (list, float) pair, placeholder pattern", "scalar half of a global (list, float) pair, named pattern", "scalar field of a global record holding the list, placeholder pattern"][(d - 14) as usize].into());
            }
            13 => {
                // a value one constructor deep
                body.push_str(&format!("  let l{n} = Cons({}, Nil)\n", el(&lastf)));
                lists.push(format!("l{n}"));
                ops.push("new one-cell list".to_string());
            }
            _ => {
                let l = lists.last()?.clone();
                body.push_str(&format!("  let s{n} = len_acc({l}, 0.0)\n"));
                floats.push(format!("s{n}"));
                ops.push("tail-recursive length".into());
            }
        }
    }
    let ret = floats.last().unwrap().clone();
    let mut src = format!(
        "type rec List = Nil | Cons({elty}, List)\nfn sum(list: List) -> float {{\n  match list {{\n    Nil => 0.0,\n    Cons(h, tail) => {hval} + sum(tail)\n  }}\n}}\nfn tail_or_nil(list: List) -> List {{\n  match list {{\n    Nil => Nil,\n    Cons(h, tail) => tail\n  }}\n}}\nfn build(n: float) -> List {{\n  if (n > 0.0) Cons({}, build(n - 1.0)) else Nil\n}}\nfn len_acc(list: List, acc: float) -> float {{\n  match list {{\n    Nil => acc,\n    Cons(h, tail) => len_acc(tail, acc + 1.0)\n  }}\n}}\n",
        el("n")
    );
    if use_global {
        src.push_str(&format!("let gl = Cons({}, Cons({}, Nil))\n", el("7.0"), el("8.0")));
    }
    if !picks.is_empty() {
        src.push_str("let gt = (gl, 2.0)\nlet gr = {gain = 2.0, lst = gl}\n");
    }
    for h in &picks {
        src.push_str(match *h {
            "gpick" => "fn gpick() -> float {\n  let (_, k) = gt\n  k\n}\n",
            "gpickn" => "fn gpickn() -> float {\n  let (unused, k) = gt\n  k\n}\n",
            _ => "fn rpick() -> float {\n  let {gain = k, lst = _} = gr\n  k\n}\n",
        });
    }
    src.push_str(&format!("fn dsp(x: float) -> float {{\n{body}  {ret}\n}}\n"));
    Some(Gen { prog: Prog::default(), family: "FB", inputs: 1, ops, ft: None, text: Some(src) })
}

/// third variant of FB: the recursive reference sits inside a tuple (`Cons((float, List))`); a subset of the operations
fn fb_decode_nested(idx: u64, k: u32) -> Option<Gen> {
    let digits = seq_decode(idx, FB_RADIX, k);
    let mut lists: Vec<String> = vec![];
    let mut floats: Vec<String> = vec!["x".into()];
    let mut body = String::new();
    let mut ops = vec!["the recursive reference is inside a tuple".to_string()];
    let mut n = 0;
    for d in digits {
        n += 1;
        let lastf = floats.last().unwrap().clone();
        match d {
            0 => {
                body.push_str(&format!("  let l{n} = Cons(({lastf}, Cons((1.0, Nil))))\n"));
                lists.push(format!("l{n}"));
                ops.push("new list".into());
            }
            1 => {
                let l = lists.last()?.clone();
                body.push_str(&format!("  let l{n} = Cons((2.0, {l}))\n"));
                lists.push(format!("l{n}"));
                ops.push("cons onto last (sharing)".into());
            }
            2 => {
                let l = lists.last()?.clone();
                body.push_str(&format!("  let s{n} = sum({l})\n"));
                floats.push(format!("s{n}"));
                ops.push("sum(last)".into());
            }
            13 => {
                body.push_str(&format!("  let l{n} = Cons(({lastf}, Nil))\n"));
                lists.push(format!("l{n}"));
                ops.push("new one-cell list".into());
            }
            _ => return None,
        }
    }
    let ret = floats.last().unwrap().clone();
    let src = format!("type rec List = Nil | Cons((float, List))\nfn sum(list: List) -> float {{\n  match list {{\n    Nil => 0.0,\n    Cons(p) => p.0 + sum(p.1)\n  }}\n}}\nfn dsp(x: float) -> float {{\n{body}  {ret}\n}}\n");
    Some(Gen { prog: Prog::default(), family: "FB", inputs: 1, ops, ft: None, text: Some(src) })
}

// ================================================================== FO: tasks whose effects do not commute
// One shared cell, a doubling task and an incrementing task that also schedules the doubling one; every sequence of
// up to four scheduling requests (task x time in 1..3) issued by global code. Which of several tasks due at the same
// sample runs first is not specified by the language, so there is no reference - but the two runtimes must agree (C01).
pub fn fo_count() -> u64 {
    seq_count(6, 4)
}
pub fn fo_decode(idx: u64) -> Option<Gen> {
    let digits = seq_decode(idx, 6, 4);
    let mut src = String::from("let x = 1.0\nfn ta() {\n  x = x * 2.0\n}\nfn tb() {\n  x = x + 1.0\n  ta@(now + 1.0)\n}\n");
    let mut ops = vec![];
    for d in digits {
        let (task, t) = (if d % 2 == 0 { "ta" } else { "tb" }, 1 + d / 2);
        src.push_str(&format!("{task}@{t}.0\n"));
        ops.push(format!("{task}@{t}"));
    }
    src.push_str("fn dsp() {\n  x\n}\n");
    Some(Gen { prog: Prog::default(), family: "FO", inputs: 0, ops, ft: None, text: Some(src) })
}

// ================================================================== FU: closures in unit-returning / value-returning / task frames

pub fn fu_count() -> u64 {
    9
}
pub fn fu_decode(idx: u64) -> Option<Gen> {
    let (frame, usage) = (idx / 3, idx % 3);
    let (use_expr, use_name) = match usage {
        0 => ("(|v| v + a)(g)".to_string(), "lambda applied on the spot"),
        1 => ("{\n    let f = |v| v + a\n    f(g)\n  }".to_string(), "let-bound lambda then called"),
        _ => ("apply(|v| v + a, g)".to_string(), "lambda passed to a higher-order function"),
    };
    let apply = "fn apply(f, v) {\n  f(v)\n}\n";
    let (src, frame_name) = match frame {
        0 => (format!("{apply}let g = 0.0\nfn bump(a) {{\n  g = {use_expr}\n}}\nfn dsp(x) {{\n  bump(1.0)\n  g\n}}\n"), "unit-returning function called from dsp"),
        1 => (format!("{apply}let g = 0.0\nfn bump(a) {{\n  g = {use_expr}\n  g\n}}\nfn dsp(x) {{\n  bump(1.0)\n}}\n"), "value-returning function called from dsp"),
        _ => (
            format!("{apply}let g = 0.0\nfn start() {{\n  let a = 1.0\n  letrec tick = | | {{\n    g = {use_expr}\n    tick@(now + 1.0)\n  }}\n  tick@1.0\n}}\nlet _ = start()\nfn dsp(x) {{\n  g\n}}\n"),
            "self-rescheduling letrec task",
        ),
    };
    Some(Gen { prog: Prog::default(), family: "FU", inputs: 1, ops: vec![frame_name.to_string(), use_name.to_string()], ft: None, text: Some(src) })
}

// ================================================================== FW: a long-lived closure forwarded through a parameter

pub fn fw_count() -> u64 {
    36
}
/// FW: one closure value lives in a global and is used by dsp on every sample; at global initialisation a helper
/// receives it as a *parameter* and forwards that parameter 1..=3 times (to the scheduler with `@`, or by calling it),
/// and the helper is invoked 1..=3 times. Nothing is allocated in steady state, so the numbers of live closures and
/// heap objects must not change and the closure must stay usable.
pub fn fw_decode(idx: u64) -> Option<Gen> {
    let (forwards, calls, kind, how) = (1 + idx % 3, 1 + (idx / 3) % 3, (idx / 9) % 2, (idx / 18) % 2);
    let mut src = String::from("let total = 0.0\n");
    if kind == 0 {
        src.push_str("fn mkinc(step) {\n  | | {\n    total = total + step\n  }\n}\nlet inc = mkinc(1.0)\n");
    } else {
        src.push_str("let inc = | | {\n  total = total + 1.0\n}\n");
    }
    src.push_str("fn fwd(f:()->()) {\n");
    for k in 1..=forwards {
        if how == 0 {
            src.push_str(&format!("  f@(now + {k}.0)\n"));
        } else {
            src.push_str("  f()\n");
        }
    }
    src.push_str("}\nfn kick() {\n");
    for _ in 0..calls {
        src.push_str("  fwd(inc)\n");
    }
    src.push_str("  0.0\n}\nlet started = kick()\nfn dsp(x) {\n  inc()\n  total\n}\n");
    let ops = vec![
        if kind == 0 { "closure from a factory, bound to a global" } else { "lambda bound to a global" }.to_string(),
        format!("helper forwards its parameter {forwards}x by {}", if how == 0 { "scheduling it" } else { "calling it" }),
        format!("helper invoked {calls}x at global initialisation"),
    ];
    Some(Gen { prog: Prog::default(), family: "FW", inputs: 1, ops, ft: None, text: Some(src) })
}

// ================================================================== FM: match on number literals

pub fn fm_count() -> u64 {
    7 * 6 * 2 * 3
}
/// FM: `match` on number literals with a wildcard arm. The scrutinee walks over an integer ramp that starts above,
/// inside or below the literals (and, in the second form, steps by one half), so that values below the smallest
/// literal, between literals, on them and above the largest all occur. Literal sets: contiguous from 0, contiguous
/// from 1, with a gap, a single literal; also a two-component tuple match.
pub fn fm_decode(idx: u64) -> Option<Gen> {
    let (set, start, half) = (idx % 7, (idx / 7) % 6, (idx / 42) % 2);
    // (the last three sets: the same literal in two arms; a literal with a fractional part, which both backends
    // truncate - onto the key of another arm, and onto a key of its own)
    let lits: &[&str] = match set {
        0 => &["0", "1", "2"],
        1 => &["1", "2", "3"],
        2 => &["0", "2", "5"],
        3 => &["3"],
        4 => &["1", "2", "1"],
        5 => &["0", "0.5", "2"],
        _ => &["1", "2.5"],
    };
    // arm bodies: a constant; an `if` as the first thing of the arm whose condition becomes negative as the scrutinee
    // falls; one whose condition is NaN for positive scrutinees
    let body_form = (idx / 84) % 3;
    let body = |k: usize| match body_form {
        0 => format!("{k}.0"),
        1 => format!("if (2.0 - n) {k}.0 else {}.0", k + 50),
        _ => format!("if (sqrt(0.0 - n)) {k}.0 else {}.0", k + 50),
    };
    let arms: String = lits.iter().enumerate().map(|(i, l)| format!("    {l} => {},\n", body((i + 1) * 100))).collect();
    let start_v = [6.0, 3.0, 1.0, 0.0, -2.0, -6.0][start as usize];
    let step = if half == 0 { "1.0" } else { "0.5" };
    // the scrutinee falls from start_v by `step` per sample
    let src = format!(
        "fn ramp() {{\n  self + {step}\n}}\nfn pick(n) {{\n  match n {{\n{arms}    _ => {wild}\n  }}\n}}\nfn pick2(a: float, b: float) {{\n  match (a, b) {{\n    (1, 1) => 10.0,\n    (1, 2) => 20.0,\n    (2, 1) => 30.0,\n    _ => 90.0\n  }}\n}}\nfn dsp(x) {{\n  let n = {} - ramp()\n  (pick(n), pick2(n, 1.0), pick2(2.0, n))\n}}\n",
        fmt_num(start_v + if half == 0 { 1.0 } else { 0.5 }),
        wild = body(900)
    );
    let ops = vec![format!("literals {lits:?}"), format!("scrutinee starts at {start_v} and falls by {step} per sample"), ["constant arm bodies", "arm bodies `if (2.0 - n) ..`", "arm bodies `if (sqrt(0.0 - n)) ..`"][body_form as usize].to_string()];
    Some(Gen { prog: Prog::default(), family: "FM", inputs: 1, ops, ft: None, text: Some(src) })
}

// ================================================================== FR: bursts of scheduling requests

const FR_SIZES: [u64; 7] = [1, 2, 60, 127, 128, 129, 300];
pub fn fr_count() -> u64 {
    FR_SIZES.len() as u64 * 2
}
/// FR: N requests `bump@(now + k)`, k = N..1, issued in one go by a recursive function - from global code before the
/// first sample, or by a task at sample 1 - so that one task is due at each of the following N samples.
pub fn fr_decode(idx: u64) -> Option<Gen> {
    let n = FR_SIZES[(idx % FR_SIZES.len() as u64) as usize];
    let from_task = idx / FR_SIZES.len() as u64 == 1;
    let mut src = String::from("let c0 = 0.0\nlet t0 = 0.0 - 1.0\nfn bump() {\n  c0 = c0 + 1.0\n  t0 = now\n}\nfn burst(n) {\n  if (n > 0.5) {\n    bump@(now + n)\n    burst(n - 1.0)\n  } else {\n    0.0\n  }\n}\n");
    if from_task {
        src.push_str(&format!("fn starter() {{\n  let r = burst({n}.0)\n  r\n}}\nstarter@1.0\n"));
    } else {
        src.push_str(&format!("let started = burst({n}.0)\n"));
    }
    src.push_str("fn dsp() {\n  (c0, t0)\n}\n");
    let spec = FtSpec { tasks: vec![], local: vec![], burst: Some((n, from_task)) };
    Some(Gen { prog: Prog::default(), family: "FR", inputs: 0, ops: vec![format!("{n} requests in one go from {}", if from_task { "a task at sample 1" } else { "global code" })], ft: Some(spec), text: Some(src) })
}

// ================================================================== structural features (tags)

#[derive(Default, Debug)]
pub struct Feat {
    pub tags: Vec<String>,
}
fn stateful_fn_names(p: &Prog) -> Vec<String> {
    // fixpoint: a function is stateful if its body uses self/mem/delay or calls a stateful function
    let mut st: Vec<String> = vec![];
    loop {
        let mut changed = false;
        for it in &p.items {
            if let Item::Fn(f) = it {
                if !st.contains(&f.name) && expr_stateful(&f.body, &st) {
                    st.push(f.name.clone());
                    changed = true;
                }
            }
        }
        if !changed {
            break;
        }
    }
    st
}
pub fn walk(e: &E, f: &mut dyn FnMut(&E)) {
    f(e);
    match e {
        E::Neg(a) | E::Proj(a, _) | E::Field(a, _) | E::Mem(a, _) | E::Paren(a) | E::Lambda(_, a) => walk(a, f),
        E::Bin(_, a, b) | E::Pipe(a, b, _) => {
            walk(a, f);
            walk(b, f)
        }
        E::Delay(_, a, b, _) => {
            walk(a, f);
            walk(b, f)
        }
        E::Math(_, v) | E::Call(_, v, _) | E::Tuple(v) | E::Array(v) => v.iter().for_each(|a| walk(a, f)),
        E::Index(a, i) => {
            walk(a, f);
            walk(i, f)
        }
        E::CallE(c, v, _) => {
            walk(c, f);
            v.iter().for_each(|a| walk(a, f))
        }
        E::If(c, t, el) => {
            walk(c, f);
            walk(t, f);
            walk(el, f)
        }
        E::Block(ss, r) => {
            for s in ss {
                match s {
                    S::Let(_, e) | S::LetRec(_, e) | S::Assign(_, e) | S::Expr(e) => walk(e, f),
                }
            }
            if let Some(r) = r {
                walk(r, f)
            }
        }
        E::Record(fs) => fs.iter().for_each(|(_, a)| walk(a, f)),
        E::CallPack(_, fs, _) => fs.iter().for_each(|(_, a)| walk(a, f)),
        _ => {}
    }
}
pub fn expr_stateful(e: &E, st: &[String]) -> bool {
    let mut r = false;
    walk(e, &mut |x| match x {
        E::SelfV | E::Mem(..) | E::Delay(..) => r = true,
        E::Call(n, _, _) if st.contains(n) => r = true,
        E::Var(n) if st.contains(n) => r = true,
        _ => {}
    });
    r
}
pub fn features(p: &Prog) -> Vec<String> {
    let st = stateful_fn_names(p);
    let mut tags: Vec<String> = vec![];
    // closure factories: functions whose body builds a lambda over one of their own locals
    let factories: Vec<String> = p
        .items
        .iter()
        .filter_map(|it| match it {
            Item::Fn(f) => {
                let mut has_local = false;
                let mut has_lambda = false;
                walk(&f.body, &mut |x| match x {
                    E::Block(ss, _) if ss.iter().any(|s| matches!(s, S::Let(_, e) if !matches!(e, E::Lambda(..)))) => has_local = true,
                    E::Lambda(..) => has_lambda = true,
                    _ => {}
                });
                (has_local && has_lambda && f.name != "dsp").then(|| f.name.clone())
            }
            _ => None,
        })
        .collect();
    let mut factory_calls = 0;
    for it in &p.items {
        let e = match it {
            Item::Fn(f) => &f.body,
            Item::Let(_, e) => e,
        };
        walk(e, &mut |x| {
            if let E::Call(n, _, _) = x {
                if factories.contains(n) {
                    factory_calls += 1;
                }
            }
        });
    }
    if factory_calls >= 2 {
        tags.push("closure_factory_called_more_than_once".into());
    }
    // a tuple projection used directly as the time operand of a delay, or as an arm of an if
    {
        let mut hit = false;
        for it in &p.items {
            let e = match it {
                Item::Fn(f) => &f.body,
                Item::Let(_, e) => e,
            };
            walk(e, &mut |x| match x {
                E::Delay(_, _, t, _) if matches!(**t, E::Proj(..)) => hit = true,
                E::If(_, a, b) if matches!(**a, E::Proj(..)) || matches!(**b, E::Proj(..)) => hit = true,
                _ => {}
            });
        }
        if hit {
            tags.push("tuple_projection_as_delay_time_or_if_arm".into());
        }
    }
    // a lambda nested inside another lambda assigns a variable that is bound outside the outer lambda
    {
        let mut hit = false;
        for it in &p.items {
            let e = match it {
                Item::Fn(f) => &f.body,
                Item::Let(_, e) => e,
            };
            walk(e, &mut |outer| {
                if let E::Lambda(ps, ob) = outer {
                    // names bound inside the outer lambda (parameters, lets at any depth)
                    let mut bound: Vec<String> = ps.iter().map(|p| p.split(':').next().unwrap().to_string()).collect();
                    walk(ob, &mut |x| {
                        if let E::Block(ss, _) = x {
                            for s in ss {
                                match s {
                                    S::Let(Pat::Var(n), _) | S::LetRec(n, _) => bound.push(n.split(':').next().unwrap().to_string()),
                                    _ => {}
                                }
                            }
                        }
                        if let E::Lambda(ps2, _) = x {
                            bound.extend(ps2.iter().map(|p| p.split(':').next().unwrap().to_string()));
                        }
                    });
                    walk(ob, &mut |inner| {
                        if let E::Lambda(_, ib) = inner {
                            walk(ib, &mut |x| {
                                if let E::Block(ss, _) = x {
                                    if ss.iter().any(|s| matches!(s, S::Assign(v, _) if !bound.contains(&v.split('.').next().unwrap().to_string()))) {
                                        hit = true;
                                    }
                                }
                            });
                        }
                    });
                }
            });
        }
        if hit {
            tags.push("nested_closure_assigns_outer_local".into());
        }
    }
    // does dsp create a closure object on every call? (lambda, factory call, top-level function used as a value)
    let fn_names: Vec<String> = p.items.iter().filter_map(|it| if let Item::Fn(f) = it { Some(f.name.clone()) } else { None }).collect();
    for it in &p.items {
        if let Item::Fn(f) = it {
            if f.name != "dsp" {
                continue;
            }
            let mut creates = false;
            // the closure of a local `letrec` is released when its frame returns (observed on the unchanged tree): it
            // does not count as a per-call closure object
            let (mut lambdas, mut letrec_lambdas) = (0, 0);
            walk(&f.body, &mut |x| match x {
                E::Lambda(..) => lambdas += 1,
                E::Block(ss, _) => letrec_lambdas += ss.iter().filter(|q| matches!(q, S::LetRec(_, E::Lambda(..)))).count(),
                _ => {}
            });
            if lambdas > letrec_lambdas {
                creates = true;
            }
            walk(&f.body, &mut |x| match x {
                // a top-level function named as a value (bound to a local, passed on): wrapped in a closure object
                E::Var(v) if fn_names.contains(v) => creates = true,
                E::Call(n, args, _) => {
                    if factories.contains(n) || n == "mkadd" || n == "mkrec" {
                        creates = true;
                    }
                    if args.iter().any(|a| matches!(a, E::Var(v) if fn_names.contains(v))) {
                        creates = true;
                    }
                }
                _ => {}
            });
            if creates {
                tags.push("closure_created_per_dsp_call".into());
            }
        }
    }
    let mut add = |t: &str| {
        if !tags.iter().any(|x| x == t) {
            tags.push(t.to_string());
        }
    };
    for it in &p.items {
        match it {
            Item::Let(_, e) => {
                if expr_stateful(e, &st) {
                    add("global_stateful_call");
                }
            }
            Item::Fn(f) => {
                let mut delays: Vec<u64> = vec![];
                let mut any_if_stateful = false;
                walk(&f.body, &mut |x| match x {
                    E::Delay(n, ..) => delays.push(n.to_bits()),
                    E::If(_, t, el) => {
                        if expr_stateful(t, &st) || expr_stateful(el, &st) {
                            any_if_stateful = true;
                        }
                    }
                    _ => {}
                });
                if any_if_stateful {
                    add("if_arm_stateful");
                }
                delays.dedup();
                let mut d2 = delays.clone();
                d2.sort();
                d2.dedup();
                if d2.len() > 1 {
                    add("delays_of_different_size_in_one_fn");
                }
                if delays.len() > 1 {
                    add("multiple_delays_in_one_fn");
                }
                // names bound to lambdas with a stateful body / to lambdas that assign
                let mut st_lams: Vec<String> = vec![];
                let mut asg_lams: Vec<String> = vec![];
                walk(&f.body, &mut |x| {
                    if let E::Block(ss, _) = x {
                        for s_ in ss {
                            if let S::Let(Pat::Var(n), E::Lambda(_, b)) = s_ {
                                if expr_stateful(b, &st) {
                                    st_lams.push(n.clone());
                                }
                                let mut asg = false;
                                walk(b, &mut |y| {
                                    if let E::Block(ss2, _) = y {
                                        if ss2.iter().any(|q| matches!(q, S::Assign(..))) {
                                            asg = true;
                                        }
                                    }
                                });
                                if asg {
                                    asg_lams.push(n.clone());
                                }
                            }
                        }
                    }
                });
                if !asg_lams.is_empty() {
                    add("lambda_assigns_captured_variable");
                }
                // names bound to lambdas that mention a variable which is assigned somewhere in this function (by the
                // frame or by any lambda): passing such a closure to a function closes (copies) the variable
                let mut assigned: Vec<String> = vec![];
                walk(&f.body, &mut |x| {
                    if let E::Block(ss, _) = x {
                        for q in ss {
                            if let S::Assign(v, _) = q {
                                assigned.push(v.split('.').next().unwrap().to_string());
                            }
                        }
                    }
                });
                let mut shared_lams: Vec<String> = vec![];
                walk(&f.body, &mut |x| {
                    if let E::Block(ss, _) = x {
                        for s_ in ss {
                            if let S::Let(Pat::Var(n), E::Lambda(_, b)) = s_ {
                                let mut hit = false;
                                walk(b, &mut |y| {
                                    if let E::Var(v) = y {
                                        if assigned.contains(v) {
                                            hit = true;
                                        }
                                    }
                                });
                                if hit {
                                    shared_lams.push(n.clone());
                                }
                            }
                        }
                    }
                });
                let mut letrec = false;
                walk(&f.body, &mut |x| {
                    if let E::Block(ss, _) = x {
                        if ss.iter().any(|q| matches!(q, S::LetRec(..))) {
                            letrec = true;
                        }
                    }
                });
                if letrec {
                    add("local_letrec");
                }
                let mut any_assign = false;
                walk(&f.body, &mut |x| {
                    if let E::Block(ss, _) = x {
                        if ss.iter().any(|q| matches!(q, S::Assign(..))) {
                            any_assign = true;
                        }
                    }
                });
                if any_assign {
                    add("has_assignment");
                }
                let mut rec_pat = false;
                walk(&f.body, &mut |x| {
                    if let E::Block(ss, _) = x {
                        if ss.iter().any(|q| matches!(q, S::Let(Pat::Record(_), _))) {
                            rec_pat = true;
                        }
                    }
                });
                if rec_pat {
                    add("has_record_pattern");
                }
                let mut one_word = false;
                walk(&f.body, &mut |x| match x {
                    E::Tuple(v) if v.len() == 1 => one_word = true,
                    E::Record(fs) if fs.len() == 1 && fs[0].0 != "<-" => one_word = true,
                    _ => {}
                });
                if one_word {
                    add("one_word_aggregate");
                }
                if p.items.iter().any(|it| matches!(it, Item::Fn(g) if g.name == "defb")) {
                    add("default_refers_to_parameter");
                }
                let mut rec_call = false;
                walk(&f.body, &mut |x| {
                    if let E::CallE(callee, _, _) = x {
                        if matches!(&**callee, E::Field(..)) {
                            rec_call = true;
                        }
                    }
                });
                if rec_call {
                    add("closure_in_record_called");
                }
                walk(&f.body, &mut |x| match x {
                    E::Call(n, args, _) => {
                        if st_lams.contains(n) {
                            add("local_stateful_closure_called");
                        }
                        for a in args {
                            if let E::Var(v) = a {
                                if st_lams.contains(v) {
                                    add("local_stateful_closure_called");
                                    if n == "sapply" {
                                        // its result is added to sapply's own `self`: the closure's state shows in dsp's state words
                                        add("local_stateful_closure_feeds_a_state_cell");
                                    }
                                }
                                if asg_lams.contains(v) {
                                    add("assigning_closure_passed_as_argument");
                                }
                                if shared_lams.contains(v) {
                                    add("closure_over_assigned_local_passed_as_argument");
                                }
                            }
                        }
                    }
                    E::Pipe(_, fx, _) => {
                        if let E::Var(v) = &**fx {
                            if st_lams.contains(v) {
                                add("local_stateful_closure_called");
                            }
                        }
                    }
                    _ => {}
                });
                // a lambda whose body is stateful, or a stateful function used as a value
                walk(&f.body, &mut |x| match x {
                    E::Lambda(_, b) if expr_stateful(b, &st) => add("stateful_lambda_in_fn"),
                    E::Call(_, args, _) => {
                        for a in args {
                            if let E::Var(n) = a {
                                if st.contains(n) {
                                    add("stateful_fn_as_value");
                                }
                            }
                        }
                    }
                    _ => {}
                });
                let uses_self = {
                    let mut u = false;
                    walk(&f.body, &mut |x| {
                        if matches!(x, E::SelfV) {
                            u = true
                        }
                    });
                    u
                };
                let calls_stateful_or_cells = {
                    let mut u = false;
                    walk(&f.body, &mut |x| match x {
                        E::Mem(..) | E::Delay(..) => u = true,
                        E::Call(n, _, _) if st.contains(n) => u = true,
                        _ => {}
                    });
                    u
                };
                if uses_self && calls_stateful_or_cells {
                    add("self_and_other_state_in_one_fn");
                }
            }
        }
    }
    tags
}

// ================================================================== near-miss mutants (C03)

/// replacement menu for an atom
pub const MUT_MENU: [&str; 9] = ["(1.0, 2.0)", "(|q| q)", "\"s\"", "{ 1.0 }", "[1.0, 2.0]", "self", "now", "(1.0, (2.0, 3.0))", "{a = 1.0}"];
/// maximum number of mutants generated per program (indices beyond the actual count are invalid)
pub const MUT_MAX: u64 = 16 * MUT_MENU.len() as u64 + 8;

fn map_atoms(e: &E, counter: &mut u64, target: u64, repl: &E) -> E {
    let mut go = |x: &E| map_atoms(x, counter, target, repl);
    match e {
        E::Num(_) | E::Var(_) | E::Now => {
            let me = *counter;
            *counter += 1;
            if me == target { repl.clone() } else { e.clone() }
        }
        E::Neg(a) => E::Neg(Box::new(go(a))),
        E::Bin(op, a, b) => {
            let a2 = go(a);
            let b2 = go(b);
            E::Bin(op, Box::new(a2), Box::new(b2))
        }
        E::Math(f, v) => E::Math(f, v.iter().map(|x| go(x)).collect()),
        E::Call(f, v, s) => E::Call(f.clone(), v.iter().map(|x| go(x)).collect(), *s),
        E::CallPack(f, fs, s) => E::CallPack(f.clone(), fs.iter().map(|(k, v)| (k.clone(), go(v))).collect(), *s),
        E::If(c, t, el) => {
            let c2 = go(c);
            let t2 = go(t);
            let e2 = go(el);
            E::If(Box::new(c2), Box::new(t2), Box::new(e2))
        }
        E::Block(ss, r) => {
            let ss2 = ss
                .iter()
                .map(|s| match s {
                    S::Let(p, e) => S::Let(p.clone(), go(e)),
                    S::LetRec(n, e) => S::LetRec(n.clone(), go(e)),
                    S::Assign(n, e) => S::Assign(n.clone(), go(e)),
                    S::Expr(e) => S::Expr(go(e)),
                })
                .collect();
            let r2 = r.as_ref().map(|r| Box::new(go(r)));
            E::Block(ss2, r2)
        }
        E::Tuple(v) => E::Tuple(v.iter().map(|x| go(x)).collect()),
        E::Proj(a, i) => E::Proj(Box::new(go(a)), *i),
        E::Array(v) => E::Array(v.iter().map(|x| go(x)).collect()),
        E::Index(a, i) => E::Index(Box::new(go(a)), Box::new(go(i))),
        E::Mem(a, s) => E::Mem(Box::new(go(a)), *s),
        E::Delay(n, a, t, s) => {
            let a2 = go(a);
            let t2 = go(t);
            E::Delay(*n, Box::new(a2), Box::new(t2), *s)
        }
        E::Pipe(a, f, s) => {
            let a2 = go(a);
            let f2 = go(f);
            E::Pipe(Box::new(a2), Box::new(f2), *s)
        }
        E::Lambda(ps, b) => E::Lambda(ps.clone(), Box::new(go(b))),
        other => other.clone(),
    }
}
fn count_atoms(e: &E) -> u64 {
    let mut c = 0;
    let _ = map_atoms(e, &mut c, u64::MAX, &E::Now);
    c
}
/// m = 0: the program itself. Otherwise a deviation-1 type-changing mutant of dsp's body, or one of the
/// whole-program mutants (stateful call at global scope, tuple-valued self in a scalar function, ...).
pub fn mutate(p: &Prog, m: u64) -> Option<(Prog, String)> {
    if m == 0 {
        return Some((p.clone(), "unmutated".into()));
    }
    let m = m - 1;
    let dsp_i = p.items.iter().position(|it| matches!(it, Item::Fn(f) if f.name == "dsp"))?;
    let Item::Fn(dsp) = &p.items[dsp_i] else { return None };
    let natoms = count_atoms(&dsp.body).min(16);
    let menu = MUT_MENU.len() as u64;
    if m < natoms * menu {
        let (pos, which) = (m / menu, (m % menu) as usize);
        let mut c = 0;
        let body = map_atoms(&dsp.body, &mut c, pos, &E::Raw(MUT_MENU[which].to_string()));
        let mut q = p.clone();
        if let Item::Fn(f) = &mut q.items[dsp_i] {
            f.body = body;
        }
        return Some((q, format!("atom {pos} -> {}", MUT_MENU[which])));
    }
    let w = m - natoms * menu;
    let has_cnt = p.items.iter().any(|it| matches!(it, Item::Fn(f) if f.name == "cnt"));
    let mut q = p.clone();
    let what = match w {
        0 if has_cnt => {
            // stateful call at global scope, used by dsp
            q.items.insert(dsp_i, Item::Let(Pat::Var("gq".into()), call("cnt", vec![num(1.0)], 9000)));
            "stateful call at global scope"
        }
        1 => {
            // dsp returns a function
            if let Item::Fn(f) = &mut q.items[dsp_i] {
                f.body = block(vec![S::Expr(f.body.clone())], E::Raw("(|q| q)".into()));
            }
            "dsp returns a lambda"
        }
        2 => {
            if let Item::Fn(f) = &mut q.items[dsp_i] {
                f.body = block(vec![S::Expr(f.body.clone())], E::Raw("{ }".into()));
            }
            "dsp returns unit"
        }
        3 => {
            // delay with non-literal size
            if let Item::Fn(f) = &mut q.items[dsp_i] {
                f.body = block(vec![S::Expr(f.body.clone())], E::Raw("delay(x + 3.0, x, 1.0)".into()));
            }
            "delay with non-literal size"
        }
        4 => {
            if let Item::Fn(f) = &mut q.items[dsp_i] {
                f.body = block(vec![S::Expr(f.body.clone())], E::Raw("delay(0.0, x, 1.0)".into()));
            }
            "delay of size zero"
        }
        5 => {
            if let Item::Fn(f) = &mut q.items[dsp_i] {
                f.body = block(vec![S::Expr(f.body.clone())], E::Raw("delay(3.0, x, 100.0)".into()));
            }
            "delay time beyond its size"
        }
        6 => {
            if let Item::Fn(f) = &mut q.items[dsp_i] {
                f.body = block(vec![S::Expr(f.body.clone())], E::Raw("delay(3.0, x, 0.0 - 5.0)".into()));
            }
            "negative delay time"
        }
        7 => {
            // tuple-valued self inside dsp
            if let Item::Fn(f) = &mut q.items[dsp_i] {
                f.body = block(vec![S::Expr(f.body.clone()), S::Let(Pat::Tuple(vec![Pat::Var("sa".into()), Pat::Var("sb".into())]), E::SelfV)], E::Raw("(sa + 1.0, sb + sa)".into()));
            }
            "dsp with tuple-valued self"
        }
        _ => return None,
    };
    Some((q, what.to_string()))
}
