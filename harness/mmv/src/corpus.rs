//! The shipped sources, read from /repo at run time (never copied).
use std::path::PathBuf;
use std::sync::OnceLock;

pub struct CorpusFile {
    pub path: PathBuf,
    pub text: String,
}

pub fn repo_root() -> PathBuf {
    std::env::var("VERIF_REPO").map(PathBuf::from).unwrap_or_else(|_| PathBuf::from("/repo"))
}

fn walk(dir: &std::path::Path, out: &mut Vec<PathBuf>) {
    if let Ok(rd) = std::fs::read_dir(dir) {
        let mut es: Vec<_> = rd.flatten().map(|e| e.path()).collect();
        es.sort();
        for p in es {
            if p.is_dir() {
                walk(&p, out);
            } else if p.extension().map(|e| e == "mmm").unwrap_or(false) {
                out.push(p);
            }
        }
    }
}

/// All corpus files, sorted by (size, path) so that small files come first.
pub fn corpus() -> &'static Vec<CorpusFile> {
    static C: OnceLock<Vec<CorpusFile>> = OnceLock::new();
    C.get_or_init(|| {
        let r = repo_root();
        let mut paths = vec![];
        for d in ["lib", "examples", "crates/lib/mimium-test/tests/mmm", "crates/bin/mimium-fmt/tests"] {
            walk(&r.join(d), &mut paths);
        }
        let mut v: Vec<CorpusFile> = paths
            .into_iter()
            .filter_map(|p| std::fs::read_to_string(&p).ok().map(|t| CorpusFile { path: p, text: t }))
            .collect();
        v.sort_by(|a, b| (a.text.len(), &a.path).cmp(&(b.text.len(), &b.path)));
        v
    })
}
