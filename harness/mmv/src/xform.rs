//! Meaning-preserving transformations of harness programs (C16): consistent renaming, redundant
//! parentheses, layout / comments, agreeing type annotations.  Each is a deviation of 1 from the
//! base program; `nth(prog, t)` enumerates them.

use crate::lang::*;

pub const NAMES: [&str; 11] = ["lambda_0", "lambda_1", "record_update_temp", "__dt0", "_mimium_global", "dsp_", "state", "mem_", "x1", "é", "LONG"];
pub const TMAX: u64 = 640;

fn long_name() -> String {
    "n".repeat(300)
}

/// user-chosen identifiers of a program (function names except dsp, parameters, let-bound names), in order
pub fn identifiers(p: &Prog) -> Vec<String> {
    let mut v: Vec<String> = vec![];
    let mut add = |s: &str| {
        let s = s.split(':').next().unwrap().to_string();
        if s != "dsp" && !v.contains(&s) {
            v.push(s);
        }
    };
    fn pat_names(p: &Pat, add: &mut dyn FnMut(&str)) {
        match p {
            Pat::Var(n) if n == "_" => {}
            Pat::Var(n) => add(n),
            Pat::Tuple(ps) => ps.iter().for_each(|q| pat_names(q, add)),
            Pat::Record(fs) => fs.iter().for_each(|(_, q)| pat_names(q, add)),
        }
    }
    fn expr_names(e: &E, add: &mut dyn FnMut(&str)) {
        crate::fam::walk(e, &mut |x| match x {
            E::Block(ss, _) => {
                for s in ss {
                    if let S::Let(p, _) = s {
                        pat_names(p, add)
                    }
                    if let S::LetRec(n, _) = s {
                        add(n)
                    }
                }
            }
            E::Lambda(ps, _) => ps.iter().for_each(|q| add(q)),
            _ => {}
        });
    }
    for it in &p.items {
        match it {
            Item::Fn(f) => {
                add(&f.name);
                for (n, _) in &f.params {
                    add(n);
                }
                expr_names(&f.body, &mut add);
            }
            Item::Let(pt, e) => {
                pat_names(pt, &mut add);
                expr_names(e, &mut add);
            }
        }
    }
    v
}

fn ren(s: &str, old: &str, new: &str) -> String {
    // parameter names may carry an annotation "name:type"
    let (n, rest) = match s.split_once(':') {
        Some((n, r)) => (n, Some(r)),
        None => (s, None),
    };
    let n2 = if n == old { new } else { n };
    match rest {
        Some(r) => format!("{n2}:{r}"),
        None => n2.to_string(),
    }
}
fn ren_pat(p: &Pat, old: &str, new: &str) -> Pat {
    match p {
        Pat::Var(n) => Pat::Var(ren(n, old, new)),
        Pat::Tuple(ps) => Pat::Tuple(ps.iter().map(|q| ren_pat(q, old, new)).collect()),
        Pat::Record(fs) => Pat::Record(fs.iter().map(|(k, q)| (k.clone(), ren_pat(q, old, new))).collect()),
    }
}
pub fn map_expr(e: &E, f: &mut dyn FnMut(&E) -> Option<E>) -> E {
    if let Some(r) = f(e) {
        return r;
    }
    let mut g = |x: &E| Box::new(map_expr(x, f));
    match e {
        E::Neg(a) => E::Neg(g(a)),
        E::Bin(op, a, b) => {
            let a2 = g(a);
            E::Bin(op, a2, g(b))
        }
        E::Math(n, v) => E::Math(n, v.iter().map(|x| *g(x)).collect()),
        E::Call(n, v, s) => E::Call(n.clone(), v.iter().map(|x| *g(x)).collect(), *s),
        E::CallE(c, v, s) => {
            let c2 = g(c);
            E::CallE(c2, v.iter().map(|x| *g(x)).collect(), *s)
        }
        E::CallPack(n, fs, s) => E::CallPack(n.clone(), fs.iter().map(|(k, v)| (k.clone(), *g(v))).collect(), *s),
        E::If(c, t, el) => {
            let c2 = g(c);
            let t2 = g(t);
            E::If(c2, t2, g(el))
        }
        E::Block(ss, r) => {
            let ss2 = ss
                .iter()
                .map(|s| match s {
                    S::Let(p, e) => S::Let(p.clone(), *g(e)),
                    S::LetRec(n, e) => S::LetRec(n.clone(), *g(e)),
                    S::Assign(n, e) => S::Assign(n.clone(), *g(e)),
                    S::Expr(e) => S::Expr(*g(e)),
                })
                .collect();
            E::Block(ss2, r.as_ref().map(|r| g(r)))
        }
        E::Lambda(ps, b) => E::Lambda(ps.clone(), g(b)),
        E::Tuple(v) => E::Tuple(v.iter().map(|x| *g(x)).collect()),
        E::Proj(a, i) => E::Proj(g(a), *i),
        E::Array(v) => E::Array(v.iter().map(|x| *g(x)).collect()),
        E::Index(a, i) => {
            let a2 = g(a);
            E::Index(a2, g(i))
        }
        E::Record(fs) => E::Record(fs.iter().map(|(k, v)| (k.clone(), *g(v))).collect()),
        E::Field(a, n) => E::Field(g(a), n.clone()),
        E::Mem(a, s) => E::Mem(g(a), *s),
        E::Delay(n, a, t, s) => {
            let a2 = g(a);
            E::Delay(*n, a2, g(t), *s)
        }
        E::Pipe(a, fx, s) => {
            let a2 = g(a);
            E::Pipe(a2, g(fx), *s)
        }
        E::Paren(a) => E::Paren(g(a)),
        other => other.clone(),
    }
}
fn ren_expr(e: &E, old: &str, new: &str) -> E {
    // structural rename incl. binders
    fn go(e: &E, old: &str, new: &str) -> E {
        match e {
            E::Var(n) => E::Var(ren(n, old, new)),
            E::Call(n, v, s) => E::Call(ren(n, old, new), v.iter().map(|x| go(x, old, new)).collect(), *s),
            // parameter-pack field names are the callee's parameter names: renamed together with them
            E::CallPack(n, fs, s) => E::CallPack(ren(n, old, new), fs.iter().map(|(k, v)| (ren(k, old, new), go(v, old, new))).collect(), *s),
            E::Lambda(ps, b) => E::Lambda(ps.iter().map(|p| ren(p, old, new)).collect(), Box::new(go(b, old, new))),
            E::Block(ss, r) => E::Block(
                ss.iter()
                    .map(|s| match s {
                        S::Let(p, e) => S::Let(ren_pat(p, old, new), go(e, old, new)),
                        S::LetRec(n, e) => S::LetRec(ren(n, old, new), go(e, old, new)),
                        // an assignee may be `record.field`: only the variable is a user identifier here
                        S::Assign(n, e) => match n.split_once('.') {
                            Some((h, f)) => S::Assign(format!("{}.{f}", ren(h, old, new)), go(e, old, new)),
                            None => S::Assign(ren(n, old, new), go(e, old, new)),
                        },
                        S::Expr(e) => S::Expr(go(e, old, new)),
                    })
                    .collect(),
                r.as_ref().map(|r| Box::new(go(r, old, new))),
            ),
            other => map_expr(other, &mut |x| if std::ptr::eq(x, other) { None } else { Some(go(x, old, new)) }),
        }
    }
    go(e, old, new)
}
pub fn rename(p: &Prog, old: &str, new: &str) -> Prog {
    Prog {
        items: p
            .items
            .iter()
            .map(|it| match it {
                Item::Fn(f) => Item::Fn(FnDef {
                    name: ren(&f.name, old, new),
                    params: f.params.iter().map(|(n, d)| (ren(n, old, new), d.as_ref().map(|d| ren_expr(d, old, new)))).collect(),
                    body: ren_expr(&f.body, old, new),
                    ret: f.ret.clone(),
                }),
                Item::Let(pt, e) => Item::Let(ren_pat(pt, old, new), ren_expr(e, old, new)),
            })
            .collect(),
    }
}

/// number of expression nodes (pre-order) in the bodies of all functions
fn count_nodes(p: &Prog) -> u64 {
    let mut c = 0;
    for it in &p.items {
        let e = match it {
            Item::Fn(f) => &f.body,
            Item::Let(_, e) => e,
        };
        crate::fam::walk(e, &mut |_| c += 1);
    }
    c
}
/// wrap the k-th expression node (pre-order over all bodies) in `depth` pairs of parentheses
fn paren_at(p: &Prog, k: u64, depth: usize) -> (Prog, String) {
    wrap_at(p, k, &|inner| {
        let mut w = inner;
        for _ in 0..depth {
            w = E::Paren(Box::new(w));
        }
        w
    })
}
/// number of expression nodes of `p` (the positions `wrap_at` / `stage_at` accept)
pub fn n_nodes(p: &Prog) -> u64 {
    count_nodes(p)
}
/// the k-th expression node quoted and spliced back on the spot (C09): mode 0 `$(`(e))`, mode 1 through the identity
/// macro `id!(`(e))`, mode 2 through a macro that let-binds the code value first `once!(`(e))`
pub const STAGE_MODES: [&str; 3] = ["quote_then_splice", "identity_macro", "macro_stage_let"];
pub const STAGE_PRELUDE: &str = "#stage(macro)\nfn id(c) {\n  c\n}\nfn once(c) {\n  let k = c\n  k\n}\n#stage(main)\n";
pub fn stage_at(p: &Prog, k: u64, mode: usize) -> (Prog, String) {
    wrap_at(p, k, &|inner| {
        // a block is quoted as a block (`{ .. }); anything else in parentheses
        let t = if matches!(inner, E::Block(..)) { pe(&inner, 1) } else { format!("({})", pe(&inner, 1)) };
        E::Raw(match mode {
            0 => format!("$(`{t})"),
            1 => format!("id!(`{t})"),
            _ => format!("once!(`{t})"),
        })
    })
}
/// rebuild `p` with its k-th expression node (pre-order over all bodies) replaced by `w(node)`; also says what the node is
fn wrap_at(p: &Prog, k: u64, w: &dyn Fn(E) -> E) -> (Prog, String) {
    let mut counter = 0u64;
    let mut ctx = String::new();
    let mut wrap = |e: &E| -> E {
        fn go(e: &E, counter: &mut u64, k: u64, w: &dyn Fn(E) -> E, ctx: &mut String, role: &str) -> E {
            let me = *counter;
            *counter += 1;
            let inner = map_children(e, &mut |c, r| go(c, counter, k, w, ctx, r));
            if me == k {
                *ctx = format!("{role} of kind {}", kind(e));
                w(inner)
            } else {
                inner
            }
        }
        go(e, &mut counter, k, w, &mut ctx, "body")
    };
    let items = p
        .items
        .iter()
        .map(|it| match it {
            Item::Fn(f) => Item::Fn(FnDef { body: wrap(&f.body), ..f.clone() }),
            Item::Let(pt, e) => Item::Let(pt.clone(), wrap(e)),
        })
        .collect();
    (Prog { items }, ctx)
}
fn kind(e: &E) -> &'static str {
    match e {
        E::Num(_) => "num",
        E::Var(_) => "var",
        E::Now | E::Sr | E::SelfV => "keyword",
        E::Neg(_) => "neg",
        E::Bin(..) => "binop",
        E::Math(..) => "builtin_call",
        E::Call(..) | E::CallE(..) | E::CallPack(..) => "call",
        E::If(..) => "if",
        // a block whose first statement is an assignment reads as a record literal once it is inside parentheses
        E::Block(ss, _) if matches!(ss.first(), Some(S::Assign(..))) => "block_starting_with_assignment",
        E::Block(..) => "block",
        E::Lambda(..) => "lambda",
        E::Tuple(_) => "tuple",
        E::Proj(..) => "proj",
        E::Array(_) => "array",
        E::Index(..) => "index",
        E::Record(_) => "record",
        E::Field(..) => "field",
        E::Mem(..) => "mem",
        E::Delay(..) => "delay",
        E::Pipe(..) => "pipe",
        E::Paren(_) => "paren",
        E::Raw(_) => "raw",
    }
}
/// rebuild `e` with children mapped; the callback gets the child's syntactic role
fn map_children(e: &E, f: &mut dyn FnMut(&E, &'static str) -> E) -> E {
    match e {
        E::Neg(a) => E::Neg(Box::new(f(a, "operand"))),
        E::Bin(op, a, b) => {
            let a2 = f(a, "operand");
            E::Bin(op, Box::new(a2), Box::new(f(b, "operand")))
        }
        E::Math(n, v) => E::Math(n, v.iter().map(|x| f(x, "argument")).collect()),
        E::Call(n, v, s) => E::Call(n.clone(), v.iter().map(|x| f(x, "argument")).collect(), *s),
        E::CallE(c, v, s) => {
            let c2 = f(c, "callee");
            E::CallE(Box::new(c2), v.iter().map(|x| f(x, "argument")).collect(), *s)
        }
        E::CallPack(n, fs, s) => E::CallPack(n.clone(), fs.iter().map(|(k, v)| (k.clone(), f(v, "field_value"))).collect(), *s),
        E::If(c, t, el) => {
            let c2 = f(c, "condition");
            let t2 = f(t, "then_branch");
            E::If(Box::new(c2), Box::new(t2), Box::new(f(el, "else_branch")))
        }
        E::Block(ss, r) => {
            let ss2 = ss
                .iter()
                .map(|s| match s {
                    S::Let(p, e) => S::Let(p.clone(), f(e, "let_rhs")),
                    S::LetRec(n, e) => S::LetRec(n.clone(), f(e, "let_rhs")),
                    S::Assign(n, e) => S::Assign(n.clone(), f(e, "assign_rhs")),
                    S::Expr(e) => S::Expr(f(e, "statement")),
                })
                .collect();
            E::Block(ss2, r.as_ref().map(|r| Box::new(f(r, "block_result"))))
        }
        E::Lambda(ps, b) => E::Lambda(ps.clone(), Box::new(f(b, "lambda_body"))),
        E::Tuple(v) => E::Tuple(v.iter().enumerate().map(|(i, x)| f(x, if i == 0 { "tuple_first_element" } else { "tuple_element" })).collect()),
        E::Proj(a, i) => E::Proj(Box::new(f(a, "projected")), *i),
        E::Array(v) => E::Array(v.iter().map(|x| f(x, "array_element")).collect()),
        E::Index(a, i) => E::Index(Box::new(f(a, "indexed")), Box::new(f(i, "index"))),
        E::Record(fs) => E::Record(fs.iter().map(|(k, v)| (k.clone(), f(v, if k == "<-" { "record_update_base" } else { "field_value" }))).collect()),
        E::Field(a, n) => E::Field(Box::new(f(a, "projected")), n.clone()),
        E::Mem(a, s) => E::Mem(Box::new(f(a, "argument")), *s),
        E::Delay(n, a, t, s) => {
            let a2 = f(a, "argument");
            E::Delay(*n, Box::new(a2), Box::new(f(t, "argument")), *s)
        }
        E::Pipe(a, fx, s) => {
            let a2 = f(a, "pipe_lhs");
            E::Pipe(Box::new(a2), Box::new(f(fx, "pipe_rhs")), *s)
        }
        E::Paren(a) => E::Paren(Box::new(f(a, "parenthesised"))),
        other => other.clone(),
    }
}

/// annotate the k-th annotatable binder (float parameters without annotation, float lets)
fn annotate(p: &Prog, k: u64) -> Option<(Prog, String)> {
    let float_fns: Vec<String> = p.items.iter().filter_map(|it| if let Item::Fn(f) = it { (f.ret == Shape::F).then(|| f.name.clone()) } else { None }).collect();
    let is_float_expr = |e: &E| match e {
        E::Num(_) | E::Bin(..) | E::Mem(..) | E::Delay(..) | E::Math(..) | E::Now | E::Sr | E::Neg(_) => true,
        E::Call(n, _, _) => float_fns.contains(n) && !["mkadd", "mkcounter", "gc", "gadd", "mkrec"].contains(&n.as_str()),
        _ => false,
    };
    // the dsp input and the float locals of the aggregate family (`p<digits>`)
    let is_float_var = |e: &E| matches!(e, E::Var(n) if n == "x" || (n.starts_with('p') && n.len() > 1 && n[1..].chars().all(|c| c.is_ascii_digit())));
    let mut counter = 0u64;
    let mut what = String::new();
    let mut items = vec![];
    for it in &p.items {
        match it {
            Item::Fn(f) => {
                let mut f2 = f.clone();
                // parameters of the harness's helper functions and of dsp are floats unless annotated otherwise
                for (n, _) in f2.params.iter_mut() {
                    if !n.contains(':') && f.name != "apply" && f.name != "sapply" && f.name != "sw" && f.name != "sumrec" && f.name != "mt" {
                        if counter == k {
                            what = format!("parameter {n} of {}", f.name);
                            *n = format!("{n}:float");
                        }
                        counter += 1;
                    }
                }
                f2.body = map_expr(&f.body, &mut |x| {
                    if let E::Block(ss, r) = x {
                        let mut changed = false;
                        let ss2: Vec<S> = ss
                            .iter()
                            .map(|s| match s {
                                S::Let(Pat::Var(n), e) if !n.contains(':') && is_float_expr(e) => {
                                    let me = counter;
                                    counter += 1;
                                    if me == k {
                                        what = format!("let {n}");
                                        changed = true;
                                        S::Let(Pat::Var(format!("{n}:float")), e.clone())
                                    } else {
                                        s.clone()
                                    }
                                }
                                // a record literal of floats: the agreeing record type, keys in the written order and reversed
                                S::Let(Pat::Var(n), e @ E::Record(fs)) if !n.contains(':') && !fs.is_empty() && fs.iter().all(|(k, v)| k != "<-" && k != ".." && (is_float_expr(v) || is_float_var(v))) => {
                                    let me = counter;
                                    counter += 2;
                                    if k == me || k == me + 1 {
                                        let mut keys: Vec<&str> = fs.iter().map(|(k, _)| k.as_str()).collect();
                                        if k == me + 1 {
                                            keys.reverse();
                                        }
                                        let ty = keys.iter().map(|k| format!("{k}:float")).collect::<Vec<_>>().join(", ");
                                        what = format!("let {n} (record type, keys {})", if k == me { "as written" } else { "reversed" });
                                        changed = true;
                                        S::Let(Pat::Var(format!("{n}:{{{ty}}}")), e.clone())
                                    } else {
                                        s.clone()
                                    }
                                }
                                _ => s.clone(),
                            })
                            .collect();
                        if changed {
                            return Some(E::Block(ss2, r.clone()));
                        }
                    }
                    None
                });
                items.push(Item::Fn(f2));
            }
            other => items.push(other.clone()),
        }
    }
    if what.is_empty() { None } else { Some((Prog { items }, what)) }
}

/// layout variants applied to the printed text
pub const LAYOUTS: [&str; 7] = ["double_spaces", "comment_after_open_paren", "newline_after_comma", "line_comment_at_eol", "block_comment_before_close_paren", "crlf", "block_comment_at_line_start"];
/// a block comment in front of the first token of every line but the first (a comment in front of a file's first token is a
/// separate, listed formatter defect that would mask everything else in this variant)
pub fn comment_at_line_start(src: &str) -> String {
    let ls: Vec<&str> = src.lines().collect();
    ls.iter()
        .enumerate()
        .map(|(k, l)| {
            let t = l.trim_start();
            // not in front of the file's first token, of a closing brace at the start of a line, of a top-level item, or of
            // a statement inside a nested block: the formatter drops those comments - listed findings, kept as
            // witness texts in C14
            // (so: only the statements directly in a function body, which the harness's printer indents by two spaces)
            let _ = &ls;
            if t.is_empty() || k == 0 || t.starts_with('}') || l.len() - t.len() != 2 { l.to_string() } else { format!("{}/* c */ {t}", &l[..l.len() - t.len()]) }
        })
        .collect::<Vec<_>>()
        .join("\n")
        + "\n"
}
fn layout(src: &str, which: usize) -> String {
    match which {
        0 => src.replace(' ', "  "),
        1 => src.replace('(', "( /* c */ "),
        2 => src.replace(", ", ",\n    "),
        3 => src.lines().map(|l| format!("{l} // c")).collect::<Vec<_>>().join("\n") + "\n",
        4 => src.replace(')', " /* c */ )"),
        5 => src.replace('\n', "\r\n"),
        _ => comment_at_line_start(src),
    }
}

/// single-gap layout deviations of a printed program: at every boundary between two tokens a block comment; at the
/// boundaries that lie inside brackets also a line break, and a line comment followed by a line break
/// (`(byte offset of the gap, what is inserted, name)`)
pub fn gap_variants(src: &str) -> Vec<(usize, &'static str, &'static str)> {
    use mimium_lang::compiler::parser::{self, TokenKind as K};
    let Ok(toks) = std::panic::catch_unwind(|| parser::tokenize(src)) else { return vec![] };
    let toks: Vec<_> = toks.into_iter().filter(|t| !matches!(t.kind, K::Whitespace | K::LineBreak | K::SingleLineComment | K::MultiLineComment | K::Eof)).collect();
    let mut v = vec![];
    let mut depth = 0i32;
    for w in toks.windows(2) {
        match w[0].kind {
            K::ParenBegin | K::ArrayBegin | K::BlockBegin => depth += 1,
            K::ParenEnd | K::ArrayEnd | K::BlockEnd => depth -= 1,
            _ => {}
        }
        // the gap between w[0] and w[1]; a closing bracket next belongs to the bracket
        let inside = depth > 0;
        let at = w[0].start + w[0].length;
        // (a float literal followed by a dot-less token etc. is unaffected: the insertion has spaces around it)
        v.push((at, " /* g */ ", "block_comment"));
        // line breaks only inside parentheses / square brackets: inside braces they separate statements
        if inside && paren_depth_only(&toks, w[0].start) {
            v.push((at, "\n", "line_break"));
            v.push((at, " // g\n", "line_comment"));
        }
    }
    v
}
/// is the position directly enclosed by `(` or `[` (not by `{`)?
fn paren_depth_only(toks: &[mimium_lang::compiler::parser::Token], upto: usize) -> bool {
    use mimium_lang::compiler::parser::TokenKind as K;
    let mut stack: Vec<K> = vec![];
    for t in toks {
        if t.start > upto {
            break;
        }
        match t.kind {
            K::ParenBegin | K::ArrayBegin | K::BlockBegin => stack.push(t.kind),
            K::ParenEnd | K::ArrayEnd | K::BlockEnd => {
                stack.pop();
            }
            _ => {}
        }
    }
    matches!(stack.last(), Some(K::ParenBegin | K::ArrayBegin))
}

pub struct Variant {
    pub source: String,
    pub kind: &'static str,
    pub what: String,
    pub tags: Vec<String>,
}

/// the t-th deviation-1 transformation of `p` (None if t is beyond the number of transformations)
pub fn nth(p: &Prog, t: u64) -> Option<Variant> {
    nth_with(p, t, false)
}
/// `gaps`: also the single-gap layout deviations (between the whole-program layouts and the annotations)
pub fn nth_with(p: &Prog, t: u64, gaps: bool) -> Option<Variant> {
    let ids = identifiers(p);
    let nren = ids.len() as u64 * NAMES.len() as u64;
    if t < nren {
        let (i, n) = ((t / NAMES.len() as u64) as usize, (t % NAMES.len() as u64) as usize);
        let new = if NAMES[n] == "LONG" { long_name() } else { NAMES[n].to_string() };
        if ids.contains(&new) {
            return None;
        }
        let q = rename(p, &ids[i], &new);
        return Some(Variant { source: print(&q), kind: "rename", what: format!("{} -> {}", ids[i], NAMES[n]), tags: vec!["rename".into(), format!("rename_to_{}", NAMES[n])] });
    }
    let t = t - nren;
    let nodes = count_nodes(p);
    const DEPTHS: [usize; 3] = [1, 2, 21];
    if t < nodes * 3 {
        let (k, d) = (t / 3, DEPTHS[(t % 3) as usize]);
        let (q, ctx) = paren_at(p, k, d);
        let role = ctx.split(' ').next().unwrap_or("").to_string();
        let node_kind = ctx.rsplit(' ').next().unwrap_or("").to_string();
        return Some(Variant { source: print(&q), kind: "parens", what: format!("{d} pair(s) around node {k}: {ctx}"), tags: vec!["parens".into(), format!("parens_{d}"), format!("paren_role_{role}"), format!("paren_kind_{node_kind}")] });
    }
    let t = t - nodes * 3;
    if t < LAYOUTS.len() as u64 {
        let src = print(p);
        return Some(Variant { source: layout(&src, t as usize), kind: "layout", what: LAYOUTS[t as usize].into(), tags: vec!["layout".into(), format!("layout_{}", LAYOUTS[t as usize])] });
    }
    let mut t = t - LAYOUTS.len() as u64;
    if gaps {
        let src = print(p);
        let gv = gap_variants(&src);
        if t < gv.len() as u64 {
            let (at, ins, name) = gv[t as usize];
            let mut out = src.clone();
            out.insert_str(at, ins);
            let line = src[..at].matches('\n').count() + 1;
            // the tokens around the gap (first characters)
            let before: String = src[..at].chars().rev().take_while(|c| !c.is_whitespace()).collect::<Vec<_>>().into_iter().rev().collect();
            let after: String = src[at..].trim_start().chars().take(1).collect();
            let mut tags = vec!["layout".to_string(), "gap".into(), format!("gap_{name}")];
            // (a `)` that closes the condition of an `if` is not an expression that a `(` could continue)
            let closes_if_condition = || {
                let b = src[..at].trim_end().as_bytes();
                if b.last() != Some(&b')') {
                    return false;
                }
                let (mut depth, mut k) = (0i32, b.len());
                while k > 0 {
                    k -= 1;
                    match b[k] {
                        b')' => depth += 1,
                        b'(' => {
                            depth -= 1;
                            if depth == 0 {
                                break;
                            }
                        }
                        _ => {}
                    }
                }
                src[..k].trim_end().ends_with("if")
            };
            if name != "block_comment" && (after == "(" || after == "[" || after == ".") && before.chars().last().map(|c| c.is_alphanumeric() || c == ')' || c == ']' || c == '_').unwrap_or(false) && !closes_if_condition() && !["if", "else", "(if", "let", "letrec"].contains(&before.trim_start_matches('(')) && before.trim_start_matches('(') != "if" {
                // between an expression and the `(` / `[` / `.` that continues it
                tags.push("line_break_before_postfix".into());
            }
            return Some(Variant { source: out, kind: "gap", what: format!("{name} inserted at byte {at} (line {line}), between `{before}` and `{after}`"), tags });
        }
        t -= gv.len() as u64;
    }
    let (q, what) = annotate(p, t)?;
    Some(Variant { source: print(&q), kind: "annotation", what, tags: vec!["annotation".into()] })
}
