//! Shared machinery of the program-family checks (C01, C02, C03, C05, C06, C12, C16, C18):
//! index space over families, input streams, comparison helpers.

use crate::fam::{self, Gen};
use crate::lang;
use crate::run::{self, Backend, FullRun, RunErr};
use serde_json::{Value, json};

pub struct Part {
    pub name: &'static str,
    pub k: u32,
    pub count: u64,
}
pub struct Space {
    pub parts: Vec<Part>,
}
impl Space {
    /// families by name with their operation bound k (ignored for FX)
    pub fn new(spec: &[(&'static str, u32)]) -> Space {
        let parts = spec
            .iter()
            .map(|&(name, k)| Part {
                name,
                k,
                count: match name {
                    "FX" => fam::fx_count(),
                    "FP" => fam::fp_count(),
                    "FS" => fam::fs_count(k),
                    "FC" => fam::fc_count(k),
                    "FA" => fam::fa_count(k),
                    "FT" => fam::ft_count(k),
                    "FL" => fam::fl_count(k),
                    "FB" => fam::fb_count(k),
                    "FU" => fam::fu_count(),
                    "FW" => fam::fw_count(),
                    "FM" => fam::fm_count(),
                    "FR" => fam::fr_count(),
                    "FO" => fam::fo_count(),
                    _ => panic!("unknown family {name}"),
                },
            })
            .collect();
        Space { parts }
    }
    pub fn n(&self) -> u64 {
        self.parts.iter().map(|p| p.count).sum()
    }
    pub fn get(&self, mut idx: u64) -> (&'static str, Option<Gen>) {
        for p in &self.parts {
            if idx < p.count {
                let g = match p.name {
                    "FX" => fam::fx_decode(idx),
                    "FP" => fam::fp_decode(idx),
                    "FS" => fam::fs_decode(idx, p.k),
                    "FC" => fam::fc_decode(idx, p.k),
                    "FA" => fam::fa_decode(idx, p.k),
                    "FT" => fam::ft_decode(idx, p.k),
                    "FL" => fam::fl_decode(idx, p.k),
                    "FB" => fam::fb_decode(idx, p.k),
                    "FU" => fam::fu_decode(idx),
                    "FW" => fam::fw_decode(idx),
                    "FM" => fam::fm_decode(idx),
                    "FR" => fam::fr_decode(idx),
                    "FO" => fam::fo_decode(idx),
                    _ => unreachable!(),
                };
                return (p.name, g);
            }
            idx -= p.count;
        }
        panic!("index out of range")
    }
    pub fn describe(&self) -> String {
        self.parts.iter().map(|p| format!("{}(k<={}): {} indices", p.name, p.k, p.count)).collect::<Vec<_>>().join("; ")
    }
}

/// deterministic input streams (value of channel 0 at sample t; channel c adds c)
pub fn stream(i: usize, t: usize) -> f64 {
    match i {
        0 => [1.0, 0.0][t % 2],
        1 => [-0.5, 2.0, 0.0, 1e10][t % 4],
        2 => [0.0, 0.0, 1.0, 1.0][t % 4],
        _ => t as f64 * 0.25,
    }
}
pub const STREAM_DESCR: &str = "streams: 0=[1,0]*, 1=[-0.5,2,0,1e10]*, 2=[0,0,1,1]*, 3=t/4";

pub fn inputs_for(stream_i: usize, nin: usize) -> impl Fn(usize) -> Vec<f64> {
    move |t| (0..nin).map(|c| stream(stream_i, t) + c as f64).collect()
}

pub fn run_backend(b: Backend, src: &str, sched: bool, nin: usize, stream_i: usize, n: usize, want_state: bool) -> Result<FullRun, RunErr> {
    run::full_run(b, src, sched, n, &inputs_for(stream_i, nin), want_state)
}
pub fn run_ref(g: &Gen, stream_i: usize, n: usize) -> Result<Vec<Vec<f64>>, lang::EvalErr> {
    lang::reference_run(&g.prog, n, &inputs_for(stream_i, g.inputs))
}

/// first (sample, channel) at which two output streams differ under `eq`
pub fn first_diff(a: &[Vec<f64>], b: &[Vec<f64>], eq: fn(f64, f64) -> bool) -> Option<(usize, String)> {
    for (t, (x, y)) in a.iter().zip(b.iter()).enumerate() {
        if x.len() != y.len() {
            return Some((t, format!("sample {t}: {} words vs {} words", x.len(), y.len())));
        }
        for (c, (p, q)) in x.iter().zip(y.iter()).enumerate() {
            if !eq(*p, *q) {
                return Some((t, format!("sample {t} ch {c}: {p:?} vs {q:?}")));
            }
        }
    }
    if a.len() != b.len() {
        return Some((a.len().min(b.len()), format!("{} samples vs {}", a.len(), b.len())));
    }
    None
}

pub fn show(o: &[Vec<f64>], max: usize) -> String {
    format!("{:?}", o.iter().take(max).collect::<Vec<_>>())
}

pub fn gen_repr(g: &Gen, src: &str) -> Value {
    json!({"family": g.family, "ops": g.ops, "source": src})
}

/// classify a crash message into a short stable label
pub fn crash_label(m: &str) -> &'static str {
    if m.contains("mimium_verif: out-of-bounds") {
        "oob"
    } else if m.contains("subtract with overflow") || m.contains("add with overflow") {
        "arith_overflow"
    } else if m.contains("run_dsp returned") {
        "dsp_error_code"
    } else if m.contains("index out of bounds") || m.contains("out of range") {
        "index_panic"
    } else if m.contains("unwrap") {
        "unwrap_panic"
    } else if m.contains("todo") || m.contains("not yet implemented") || m.contains("not implemented") {
        "todo_panic"
    } else {
        "panic"
    }
}
