//! ad-hoc debugging helper (not part of any registered check)
use mimium_lang::compiler::{mirgen, parser};
use mimium_lang::utils::miniprint::MiniPrint;
use mimium_lang::{Config, ExecContext};
use std::path::PathBuf;

fn main() {
    let args: Vec<String> = std::env::args().collect();
    let src = if args[2] == "-" {
        let mut s = String::new();
        use std::io::Read;
        std::io::stdin().read_to_string(&mut s).unwrap();
        s
    } else if std::path::Path::new(&args[2]).exists() {
        std::fs::read_to_string(&args[2]).unwrap()
    } else {
        args[2].clone()
    };
    match args[1].as_str() {
        "ast" => {
            let (ast, _mi, errs) = parser::parse_to_expr(&src, Some(PathBuf::from("/x.mmm")));
            println!("{}", ast.to_expr().simple_print());
            for e in errs {
                println!("ERR {e}");
            }
        }
        "tc" => {
            let mut ctx = ExecContext::new([].into_iter(), None, Config::default());
            ctx.prepare_compiler();
            let bt = ctx.get_compiler().unwrap().get_ext_typeinfos();
            let (ast, mi, errs) = parser::parse_to_expr(&src, Some(PathBuf::from("/x.mmm")));
            for e in errs {
                println!("PERR {e}");
            }
            let (_, _, terrs) = mirgen::typecheck_with_module_info(ast, &bt, None, mi);
            for e in terrs {
                println!("TERR {e}");
            }
        }
        "mir" => {
            let mut ctx = ExecContext::new([].into_iter(), None, Config::default());
            ctx.add_system_plugin(mimium_scheduler::get_default_scheduler_plugin());
            ctx.prepare_compiler();
            match ctx.get_compiler().unwrap().emit_mir(&src) {
                Ok(m) => println!("{m}"),
                Err(es) => es.iter().for_each(|e| println!("ERR {e}")),
            }
        }
        "bc" => {
            let mut ctx = ExecContext::new([].into_iter(), None, Config::default());
            ctx.add_system_plugin(mimium_scheduler::get_default_scheduler_plugin());
            ctx.prepare_compiler();
            match ctx.get_compiler().unwrap().emit_bytecode(&src) {
                Ok(m) => println!("{m}"),
                Err(es) => es.iter().for_each(|e| println!("ERR {e}")),
            }
        }
        _ => eprintln!("?"),
    }
}
