mod corpus;
mod engine;
#[allow(dead_code)]
mod fam;
mod incfiles;
#[allow(dead_code)]
mod pc;
#[allow(dead_code)]
mod lang;
mod props;
#[allow(dead_code)]
mod run;
#[allow(dead_code)]
mod xform;

use engine::*;

fn usage() -> ! {
    eprintln!("usage: mmv check <Cxx> --tier quick|thorough | mmv replay <Cxx> <file> | mmv worker … | mmv describe <Cxx> <tier> <idx>");
    std::process::exit(2)
}

fn main() {
    let args: Vec<String> = std::env::args().collect();
    if args.len() < 3 {
        usage();
    }
    if args[1] == "c19solo" {
        // scheduling points per job, and one schedule executed twice (must be identical across runs and processes)
        engine::quiet_panics();
        let t0 = std::time::Instant::now();
        println!("{:?}", props::c19::solo().iter().map(|x| x.1).collect::<Vec<_>>());
        println!("warm-up + solo: {:?}", t0.elapsed());
        let t0 = std::time::Instant::now();
        for _ in 0..2 {
            let r = props::c19::execute(8, 9, 0, vec![(0, 8657)]);
            println!("{:?} {}", r.points, &r.obs[0][..r.obs[0].len().min(60)]);
        }
        println!("two schedules: {:?}", t0.elapsed());
        return;
    }
    if args[1] == "hashprobe" {
        // prints what HashMap iteration order looks like in this process (deterministic iff VERIF_DET_RANDOM is set)
        let m: std::collections::HashMap<u32, u32> = (0..16).map(|i| (i, i)).collect();
        println!("{:?}", m.keys().collect::<Vec<_>>());
        return;
    }
    if args[1] == "c08pair" {
        props::c08::debug_pair(&args[2], &args[3]);
        return;
    }
    if args[1] == "asanprobe" {
        // self-test of the sanitizer pass: keep a &str from Symbol::as_str across an interning that makes the
        // interner's buffer grow, then read it (a use after free that only an instrumented build reports)
        use mimium_lang::interner::ToSymbol;
        let sym = "probe_symbol_for_the_sanitizer".to_symbol();
        let s: &str = sym.as_str();
        let big = "z".repeat(8 << 20);
        let _ = big.to_symbol();
        let n: usize = s.bytes().map(|b| b as usize).sum();
        println!("read {n} through a slice taken before the buffer grew");
        return;
    }
    if args[1] == "emitrust" {
        let src = if std::path::Path::new(&args[2]).exists() { std::fs::read_to_string(&args[2]).unwrap() } else { args[2].clone() };
        let mut ctx = mimium_lang::ExecContext::new([].into_iter(), None, mimium_lang::Config::default());
        ctx.prepare_compiler();
        match ctx.get_compiler().unwrap().emit_rust(&src) {
            Ok(o) => println!("{}", o.source),
            Err(es) => es.iter().for_each(|e| println!("ERR {e}")),
        }
        return;
    }
    if args[1] == "c15obs" {
        let pi: usize = args[2].parse().unwrap();
        engine::quiet_panics();
        println!("{}", props::c15::obs_line(&props::c15::observe(pi)));
        return;
    }
    if args[1] == "diag" {
        // mmv diag <src-or-file>   (ad-hoc debugging aid: diagnostics of the VM compile entry point with their labels)
        let src = if std::path::Path::new(&args[2]).exists() { std::fs::read_to_string(&args[2]).unwrap() } else { args[2].clone() };
        let mut ctx = mimium_lang::ExecContext::new([].into_iter(), None, mimium_lang::Config::default());
        ctx.prepare_compiler();
        match ctx.get_compiler().unwrap().emit_bytecode(&src) {
            Ok(_) => println!("accepted"),
            Err(es) => es.iter().for_each(|e| println!("ERR {e}: {:?}", e.get_labels().iter().map(|(l, m)| format!("{}..{} {m}", l.span.start, l.span.end)).collect::<Vec<_>>())),
        }
        return;
    }
    if args[1] == "fmt" {
        // mmv fmt <src-or-file> [width]   (ad-hoc debugging aid: formatter output, second pass, parse errors of the output)
        let src = if std::path::Path::new(&args[2]).exists() { std::fs::read_to_string(&args[2]).unwrap() } else { args[2].clone() };
        let w: usize = args.get(3).and_then(|s| s.parse().ok()).unwrap_or(80);
        match mimium_fmt::pretty_print_cst(&src, &None, w) {
            Ok(o) => {
                println!("{o}");
                let (_, _, errs) = mimium_lang::compiler::parser::parse_to_expr(&o, None);
                println!("--- parse errors of the output: {}", errs.len());
                let (_, _, errs0) = mimium_lang::compiler::parser::parse_to_expr(&src, None);
                println!("--- parse errors of the input: {}", errs0.len());
                match mimium_fmt::pretty_print_cst(&o, &None, w) {
                    Ok(o2) if o2 == o => println!("--- fixed point"),
                    Ok(o2) => println!("--- second pass differs:\n{o2}"),
                    Err(_) => println!("--- second pass rejected"),
                }
            }
            Err(_) => println!("formatter rejected the input"),
        }
        return;
    }
    if args[1] == "run" {
        // mmv run <vm|wasm|both> <src-or-file> <n> [sched]   (ad-hoc debugging aid)
        let src = if std::path::Path::new(&args[3]).exists() { std::fs::read_to_string(&args[3]).unwrap() } else { args[3].clone() };
        let n: usize = args.get(4).and_then(|s| s.parse().ok()).unwrap_or(8);
        let sched = args.get(5).map(|s| s == "sched").unwrap_or(false);
        for b in [run::Backend::Vm, run::Backend::Wasm] {
            if args[2] != "both" && args[2] != b.name() {
                continue;
            }
            let r = run::full_run(b, &src, sched, n, &|t| vec![t as f64, 1.0], true);
            match r {
                Ok(fr) => {
                    println!("{} io={:?}", b.name(), fr.io);
                    for (t, o) in fr.out.iter().enumerate() {
                        println!("  t={t} out={o:?} state={:?} cur={}", fr.states[t].iter().map(|w| f64::from_bits(*w)).collect::<Vec<_>>(), fr.cursors[t]);
                    }
                }
                Err(e) => println!("{} ERR {e:?}", b.name()),
            }
        }
        return;
    }
    let Some(prop) = props::lookup(&args[2]) else {
        eprintln!("no check for property {}", args[2]);
        std::process::exit(2)
    };
    match args[1].as_str() {
        "check" => {
            let mut tier = std::env::var("VERIF_TIER").ok().map(|s| Tier::parse(&s)).unwrap_or(Tier::Quick);
            let mut i = 3;
            while i < args.len() {
                if args[i] == "--tier" && i + 1 < args.len() {
                    tier = Tier::parse(&args[i + 1]);
                    i += 1;
                }
                i += 1;
            }
            std::process::exit(driver_main(prop, tier));
        }
        "replay" => {
            if args.len() < 4 {
                usage();
            }
            std::process::exit(replay_main(prop, &args[3]));
        }
        "worker" => {
            if args.len() < 7 {
                usage();
            }
            let tier = Tier::parse(&args[3]);
            let from: u64 = args[4].parse().unwrap();
            let to: u64 = args[5].parse().unwrap();
            worker_main(prop, tier, from, to, args[6] == "step");
        }
        "size" => {
            let tier = Tier::parse(&args[3]);
            println!("{}", prop.n_cases(tier));
        }
        "describe" => {
            let tier = Tier::parse(&args[3]);
            let idx: u64 = args[4].parse().unwrap();
            let (case, tags) = prop.describe_case(tier, idx);
            println!("{}", serde_json::json!({"case": case, "tags": tags}));
        }
        _ => usage(),
    }
}

/// The harness owns the process's source of randomness: std seeds every HashMap (once per thread) through
/// getrandom(2), and the number and order of interner operations of a compilation - and anything a compiler derives
/// from map iteration order - depend on those seeds. When VERIF_DET_RANDOM=<k> is set (./check sets it for C19, whose
/// schedules are identified by scheduling-point numbers and must replay exactly, and for C15, which explores a stated
/// set of hash seeds) this definition, which the linker prefers to libc's, returns a byte sequence that is a function
/// of the current seed index only; `set_hash_seed` changes the index for threads started afterwards. Without the
/// variable it forwards to the system call.
static HASH_SEED: std::sync::atomic::AtomicU64 = std::sync::atomic::AtomicU64::new(u64::MAX);
pub fn set_hash_seed(k: u64) {
    HASH_SEED.store(k, std::sync::atomic::Ordering::SeqCst);
}
pub fn hash_seed_controlled() -> bool {
    std::env::var("VERIF_DET_RANDOM").is_ok()
}
#[unsafe(no_mangle)]
pub unsafe extern "C" fn getrandom(buf: *mut libc::c_void, len: libc::size_t, flags: libc::c_uint) -> libc::ssize_t {
    use std::sync::atomic::Ordering::SeqCst;
    let mut k = HASH_SEED.load(SeqCst);
    if k == u64::MAX {
        // first call: read the environment (no allocation here: getenv on a C string)
        let p = unsafe { libc::getenv(c"VERIF_DET_RANDOM".as_ptr()) };
        k = if p.is_null() { u64::MAX - 1 } else { (unsafe { libc::atoll(p) }) as u64 % (1 << 32) };
        HASH_SEED.store(k, SeqCst);
    }
    if k != u64::MAX - 1 {
        let b = buf as *mut u8;
        let mut x = k.wrapping_mul(0x9E37_79B9_7F4A_7C15).wrapping_add(0x1234_5678_9ABC_DEF1);
        for i in 0..len {
            // splitmix64 step per byte
            x = x.wrapping_add(0x9E37_79B9_7F4A_7C15);
            let mut z = x;
            z = (z ^ (z >> 30)).wrapping_mul(0xBF58_476D_1CE4_E5B9);
            z = (z ^ (z >> 27)).wrapping_mul(0x94D0_49BB_1331_11EB);
            z ^= z >> 31;
            unsafe { *b.add(i) = z as u8 };
        }
        return len as libc::ssize_t;
    }
    unsafe { libc::syscall(libc::SYS_getrandom, buf, len, flags) as libc::ssize_t }
}
