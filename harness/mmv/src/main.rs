mod corpus;
mod engine;
mod props;

use engine::*;

fn usage() -> ! {
    eprintln!("usage: mmv check <Cxx> --tier quick|thorough | mmv replay <Cxx> <file> | mmv worker … | mmv describe <Cxx> <tier> <idx>");
    std::process::exit(2)
}

fn main() {
    let args: Vec<String> = std::env::args().collect();
    if args.len() < 3 {
        usage();
    }
    let Some(prop) = props::lookup(&args[2]) else {
        eprintln!("no check for property {}", args[2]);
        std::process::exit(2)
    };
    match args[1].as_str() {
        "check" => {
            let mut tier = std::env::var("VERIF_TIER").ok().map(|s| Tier::parse(&s)).unwrap_or(Tier::Quick);
            let mut i = 3;
            while i < args.len() {
                if args[i] == "--tier" && i + 1 < args.len() {
                    tier = Tier::parse(&args[i + 1]);
                    i += 1;
                }
                i += 1;
            }
            std::process::exit(driver_main(prop, tier));
        }
        "replay" => {
            if args.len() < 4 {
                usage();
            }
            std::process::exit(replay_main(prop, &args[3]));
        }
        "worker" => {
            if args.len() < 7 {
                usage();
            }
            let tier = Tier::parse(&args[3]);
            let from: u64 = args[4].parse().unwrap();
            let to: u64 = args[5].parse().unwrap();
            worker_main(prop, tier, from, to, args[6] == "step");
        }
        "size" => {
            let tier = Tier::parse(&args[3]);
            println!("{}", prop.n_cases(tier));
        }
        "describe" => {
            let tier = Tier::parse(&args[3]);
            let idx: u64 = args[4].parse().unwrap();
            let (case, tags) = prop.describe_case(tier, idx);
            println!("{}", serde_json::json!({"case": case, "tags": tags}));
        }
        _ => usage(),
    }
}
