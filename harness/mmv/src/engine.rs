//! Driver / worker machinery shared by all property checks.
//!
//! A *check* enumerates a finite space of cases by index `0..n`.  The driver
//! shards the index range over worker subprocesses (so that a crash, abort,
//! stack overflow or hang of the *subject* is an observation rather than a
//! failure of the machinery), gathers per-chunk summaries, classifies every
//! failing case against `/verif/known_findings.json`, writes the evidence file
//! and prints `KNOWN-FINDING:` / `VIOLATION` lines.
//!
//! Exit codes: 0 held, 1 violation, 2 machinery failure.

use serde::{Deserialize, Serialize};
use serde_json::{Value, json};
use std::collections::{BTreeMap, HashSet};
use std::io::{BufRead, BufReader, Write};
use std::process::{Command, Stdio};
use std::sync::atomic::{AtomicBool, AtomicU64, Ordering};
use std::sync::{Arc, Mutex};
use std::time::{Duration, Instant};

#[derive(Clone, Copy, Debug, PartialEq, Eq)]
pub enum Tier {
    Quick,
    Thorough,
}
impl Tier {
    pub fn parse(s: &str) -> Tier {
        match s {
            "quick" => Tier::Quick,
            "thorough" => Tier::Thorough,
            _ => {
                eprintln!("unknown tier {s}");
                std::process::exit(2)
            }
        }
    }
    pub fn name(self) -> &'static str {
        match self {
            Tier::Quick => "quick",
            Tier::Thorough => "thorough",
        }
    }
}

#[derive(Clone, Debug, Serialize, Deserialize, PartialEq)]
pub struct Fail {
    /// which clause of the oracle failed (stable, short; used as signature)
    pub clause: String,
    /// free text with the observed values
    pub detail: String,
}

#[derive(Clone, Debug, Default, Serialize, Deserialize)]
pub struct CaseOut {
    /// hash of the canonical form of the case (distinct counting)
    pub key: u64,
    /// non-trivial by the property's stated rule
    pub nontrivial: bool,
    /// short label of the observed outcome class (vacuity guard)
    pub outcome: String,
    pub fails: Vec<Fail>,
    /// structural tags of the *input* (used by known-finding matchers)
    pub tags: Vec<String>,
    /// the case written out (source text, operation list, history…)
    pub repr: Value,
    /// additive counters (states, transitions, samples run, …)
    pub counters: Vec<(String, u64)>,
}

pub struct Descr {
    pub rule: String,
    pub assumptions: Vec<String>,
    pub bounds: Value,
    /// shape "E" (bounded exhaustive enumeration) or "S" (state search)
    pub shape: &'static str,
}

pub trait Prop: Sync + Send {
    fn id(&self) -> &'static str;
    /// Prepare per-process data for a tier (enumerations etc.). Called once in every worker.
    fn n_cases(&self, tier: Tier) -> u64;
    fn run_case(&self, tier: Tier, idx: u64) -> CaseOut;
    fn describe(&self, tier: Tier) -> Descr;
    /// cap per case in ms of CPU time of the worker (watchdog); the wall clock cap is 12x this
    fn case_cap_ms(&self) -> u64 {
        10_000
    }
    /// stack size of the thread that runs cases
    fn stack_bytes(&self) -> usize {
        64 << 20
    }
    fn chunk(&self, _tier: Tier) -> u64 {
        256
    }
    /// minimum number of distinct outcome labels for a non-vacuous run
    fn min_outcomes(&self) -> usize {
        2
    }
    /// workers are recycled after this many cases (the interner never frees)
    fn recycle_after(&self) -> u64 {
        200_000
    }
    /// number of shards per worker slot the index space is cut into (more = better balance when cost is uneven)
    fn shards_per_job(&self) -> u64 {
        4
    }
    /// start with the shards at the end of the index space (where a check puts its most expensive cases)
    fn expensive_cases_last(&self) -> bool {
        false
    }
    /// optional post-pass in the driver over aggregated counters; returns extra
    /// machinery-level vacuity complaints
    fn vacuity(&self, _tier: Tier, _counters: &BTreeMap<String, u64>) -> Vec<String> {
        vec![]
    }
    /// is a crash/timeout of the worker process on a case a property violation?
    fn crash_clause(&self) -> &'static str {
        "process_crash"
    }
    /// description (repr, tags) of a case without running it (used for crashing cases)
    fn describe_case(&self, _tier: Tier, idx: u64) -> (Value, Vec<String>) {
        (json!({"idx": idx}), vec![])
    }
}

pub fn fnv(s: &[u8]) -> u64 {
    let mut h: u64 = 0xcbf29ce484222325;
    for b in s {
        h ^= *b as u64;
        h = h.wrapping_mul(0x100000001b3);
    }
    h
}

// ---------------------------------------------------------------- worker

#[derive(Serialize, Deserialize, Default)]
struct ChunkSummary {
    from: u64,
    to: u64,
    n: u64,
    keys: Vec<u64>,
    outcomes: BTreeMap<String, u64>,
    counters: BTreeMap<String, u64>,
    /// failing cases that have at least one clause not covered by an open known finding (all failing cases
    /// when VERIF_DUMP_FAILS is set); cases whose every failing clause is a known finding are only counted
    failing: Vec<(u64, CaseOut)>,
    #[serde(default)]
    failing_total: u64,
    #[serde(default)]
    clause_counts: BTreeMap<String, u64>,
    /// known-finding id -> (failing clauses matched, first example)
    #[serde(default)]
    known_counts: BTreeMap<String, (u64, Value)>,
    samples: Vec<(u64, Value)>,
    matcher_hits: BTreeMap<String, (u64, u64)>,
}

static CUR_IDX: AtomicU64 = AtomicU64::new(u64::MAX);
static CUR_START_MS: AtomicU64 = AtomicU64::new(0);
static CUR_START_CPU_MS: AtomicU64 = AtomicU64::new(0);
static STEP_MODE: AtomicBool = AtomicBool::new(false);

/// CPU time consumed so far by this process (all threads), in ms
fn cpu_ms() -> u64 {
    let mut ts = libc::timespec { tv_sec: 0, tv_nsec: 0 };
    unsafe { libc::clock_gettime(libc::CLOCK_PROCESS_CPUTIME_ID, &mut ts) };
    ts.tv_sec as u64 * 1000 + ts.tv_nsec as u64 / 1_000_000
}
fn now_ms(t0: Instant) -> u64 {
    t0.elapsed().as_millis() as u64
}

pub fn quiet_panics() {
    std::panic::set_hook(Box::new(|_| {}));
}

/// Run `f` catching panics; returns Err(message) on panic.
pub fn catch<T>(f: impl FnOnce() -> T) -> Result<T, String> {
    match std::panic::catch_unwind(std::panic::AssertUnwindSafe(f)) {
        Ok(v) => Ok(v),
        Err(e) => {
            let msg = if let Some(s) = e.downcast_ref::<&str>() {
                s.to_string()
            } else if let Some(s) = e.downcast_ref::<String>() {
                s.clone()
            } else {
                "panic (non-string payload)".to_string()
            };
            Err(msg)
        }
    }
}

pub fn worker_main(prop: Arc<dyn Prop>, tier: Tier, from: u64, to: u64, step: bool) {
    quiet_panics();
    STEP_MODE.store(step, Ordering::SeqCst);
    let t0 = Instant::now();
    let cap = prop.case_cap_ms() * std::env::var("VERIF_CAP_MULT").ok().and_then(|s| s.parse::<u64>().ok()).unwrap_or(1);
    // watchdog
    std::thread::spawn(move || {
        loop {
            std::thread::sleep(Duration::from_millis(50));
            let idx = CUR_IDX.load(Ordering::SeqCst);
            if idx != u64::MAX {
                // the cap is on the CPU time the worker process spent on the case, so that a loaded machine
                // cannot turn a slow case into a reported hang; a case that sleeps (deadlock) is caught by
                // the wall clock at 12x the cap
                let st = CUR_START_MS.load(Ordering::SeqCst);
                let cst = CUR_START_CPU_MS.load(Ordering::SeqCst);
                if cpu_ms().saturating_sub(cst) > cap || now_ms(t0).saturating_sub(st) > cap * 12 {
                    let out = std::io::stdout();
                    let mut o = out.lock();
                    let _ = writeln!(o, "T {idx}");
                    let _ = o.flush();
                    unsafe { libc::_exit(3) };
                }
            }
        }
    });
    let stack = prop.stack_bytes();
    let p2 = prop.clone();
    let h = std::thread::Builder::new()
        .stack_size(stack)
        .spawn(move || worker_loop(p2, tier, from, to, step, t0))
        .unwrap();
    let _ = h.join();
    let _ = std::io::stdout().flush();
}

fn worker_loop(prop: Arc<dyn Prop>, tier: Tier, from: u64, to: u64, step: bool, t0: Instant) {
    let chunk = if step { 1 } else { prop.chunk(tier) };
    let known = load_known();
    let dump_all = std::env::var("VERIF_DUMP_FAILS").is_ok();
    let rss_limit: u64 = std::env::var("VERIF_WORKER_RSS_MB").ok().and_then(|s| s.parse().ok()).unwrap_or(2500);
    let mut i = from;
    while i < to {
        let end = (i + chunk).min(to);
        let mut s = ChunkSummary {
            from: i,
            to: end,
            ..Default::default()
        };
        for idx in i..end {
            if step {
                println!("B {idx}");
                let _ = std::io::stdout().flush();
            }
            CUR_START_MS.store(now_ms(t0), Ordering::SeqCst);
            CUR_START_CPU_MS.store(cpu_ms(), Ordering::SeqCst);
            CUR_IDX.store(idx, Ordering::SeqCst);
            let r = catch(|| prop.run_case(tier, idx));
            CUR_IDX.store(u64::MAX, Ordering::SeqCst);
            let out = match r {
                Ok(o) => o,
                Err(msg) => CaseOut {
                    key: idx,
                    nontrivial: false,
                    outcome: "harness_panic".into(),
                    fails: vec![Fail {
                        clause: "harness_panic".into(),
                        detail: msg,
                    }],
                    tags: vec![],
                    repr: json!({"idx": idx}),
                    counters: vec![],
                },
            };
            s.n += 1;
            if out.nontrivial {
                s.keys.push(out.key);
            }
            *s.outcomes.entry(out.outcome.clone()).or_default() += 1;
            for (k, v) in &out.counters {
                *s.counters.entry(k.clone()).or_default() += *v;
            }
            // matcher bookkeeping: how many cases each open entry's tag set matches,
            // and how many of those fail (to expose over-broad matchers)
            for kf in known.iter().filter(|k| k.property == prop.id() && k.is_open()) {
                if kf.tags_match(&out.tags) {
                    let e = s.matcher_hits.entry(kf.id.clone()).or_default();
                    e.0 += 1;
                    if out.fails.iter().any(|f| kf.clause_matches(&f.clause)) {
                        e.1 += 1;
                    }
                }
            }
            // keep a few samples: first of chunk 0, and sparse afterwards
            if (idx == from && s.samples.is_empty()) || (idx % 9973 == 0 && s.samples.len() < 2) {
                s.samples.push((idx, out.repr.clone()));
            }
            if !out.fails.is_empty() {
                s.failing_total += 1;
                let mut all_known = true;
                for f in &out.fails {
                    *s.clause_counts.entry(f.clause.clone()).or_default() += 1;
                    let m = if f.clause == "harness_panic" {
                        None
                    } else {
                        known.iter().find(|k| k.property == prop.id() && k.is_open() && k.clause_matches(&f.clause) && k.tags_match(&out.tags))
                    };
                    match m {
                        Some(k) => {
                            let e = s.known_counts.entry(k.id.clone()).or_insert((0, out.repr.clone()));
                            e.0 += 1;
                        }
                        None => all_known = false,
                    }
                }
                if !all_known || dump_all {
                    s.failing.push((idx, out));
                }
            }
        }
        println!("C {}", serde_json::to_string(&s).unwrap());
        let _ = std::io::stdout().flush();
        i = end;
        // mimium's interner is process-global and never shrinks: a worker that has grown past the limit hands the
        // rest of its shard back to the driver, which continues in a fresh process
        if i < to && !step && rss_mb() > rss_limit {
            println!("R {i}");
            let _ = std::io::stdout().flush();
            return;
        }
    }
    println!("D");
}

fn rss_mb() -> u64 {
    std::fs::read_to_string("/proc/self/statm")
        .ok()
        .and_then(|s| s.split_whitespace().nth(1).and_then(|x| x.parse::<u64>().ok()))
        .map(|pages| pages * 4096 / (1 << 20))
        .unwrap_or(0)
}

// ---------------------------------------------------------------- known findings

#[derive(Clone, Debug, Deserialize, Serialize)]
pub struct Known {
    pub id: String,
    pub property: String,
    /// "open" or "fixed"
    pub status: String,
    #[serde(default)]
    pub commit: Option<String>,
    /// the failing clause (exact, or prefix when ending with '*')
    pub clause: String,
    /// all of these tags must be present on the case
    #[serde(default)]
    pub requires_tags: Vec<String>,
    /// none of these may be present
    #[serde(default)]
    pub forbids_tags: Vec<String>,
    pub what: String,
    #[serde(default)]
    pub witness: Value,
}
impl Known {
    pub fn is_open(&self) -> bool {
        self.status == "open"
    }
    pub fn tags_match(&self, tags: &[String]) -> bool {
        self.requires_tags.iter().all(|t| tags.contains(t))
            && !self.forbids_tags.iter().any(|t| tags.contains(t))
    }
    pub fn clause_matches(&self, clause: &str) -> bool {
        if let Some(p) = self.clause.strip_suffix('*') {
            clause.starts_with(p)
        } else {
            self.clause == clause
        }
    }
}

pub fn verif_root() -> std::path::PathBuf {
    if let Ok(p) = std::env::var("VERIF_ROOT") {
        return p.into();
    }
    // binary lives in <root>/target/verif/mmv
    let exe = std::env::current_exe().unwrap();
    let mut p = exe.as_path();
    for _ in 0..3 {
        p = p.parent().unwrap();
    }
    p.to_path_buf()
}

pub fn load_known() -> Vec<Known> {
    let p = verif_root().join("known_findings.json");
    match std::fs::read_to_string(&p) {
        Ok(s) => {
            let v: Value = serde_json::from_str(&s).unwrap_or_else(|e| {
                eprintln!("machinery: cannot parse {p:?}: {e}");
                std::process::exit(2)
            });
            serde_json::from_value(v["findings"].clone()).unwrap_or_else(|e| {
                eprintln!("machinery: bad known_findings.json: {e}");
                std::process::exit(2)
            })
        }
        Err(_) => vec![],
    }
}

// ---------------------------------------------------------------- driver

struct Agg {
    failing_total: u64,
    clause_counts: BTreeMap<String, u64>,
    known_counts: BTreeMap<String, (u64, Value)>,
    unlisted_dropped: u64,
    n: u64,
    keys: HashSet<u64>,
    outcomes: BTreeMap<String, u64>,
    counters: BTreeMap<String, u64>,
    failing: Vec<(u64, CaseOut)>,
    samples: Vec<(u64, Value)>,
    crashes: Vec<(u64, String)>,
    matcher_hits: BTreeMap<String, (u64, u64)>,
    machinery: Vec<String>,
}

enum WorkerEnd {
    Done,
    /// worker died; chunk starting at `from` (or index) is suspect
    Died { status: String, last_begun: Option<u64>, next_unfinished: u64 },
    Timeout { idx: u64 },
    /// worker stopped on its own at a chunk boundary (memory limit): continue from `next` in a fresh process
    Recycle { next: u64 },
}

fn run_worker(
    prop_id: &str,
    tier: Tier,
    from: u64,
    to: u64,
    step: bool,
    agg: &Mutex<Agg>,
) -> WorkerEnd {
    run_worker_capped(prop_id, tier, from, to, step, 1, agg)
}

/// A watchdog timeout is only reported after the case, run alone in a fresh process with 3x the cap, times out again
/// (a machine under memory pressure can make a millisecond case burn seconds of system time). Once three timeouts
/// have been confirmed in this run the machine is evidently not the cause, and further expiries are recorded directly
/// (a change that makes every depth of a ladder hang would otherwise cost cap x 4 per case).
fn confirm_timeout(prop: &dyn Prop, tier: Tier, idx: u64, agg: &Mutex<Agg>) {
    static CONFIRMED: AtomicU64 = AtomicU64::new(0);
    if CONFIRMED.load(Ordering::SeqCst) >= 3 {
        agg.lock().unwrap().crashes.push((idx, "timeout (watchdog)".into()));
        return;
    }
    match run_worker_capped(prop.id(), tier, idx, idx + 1, true, 3, agg) {
        WorkerEnd::Done | WorkerEnd::Recycle { .. } => {}
        WorkerEnd::Timeout { .. } => {
            CONFIRMED.fetch_add(1, Ordering::SeqCst);
            agg.lock().unwrap().crashes.push((idx, "timeout (watchdog)".into()))
        }
        WorkerEnd::Died { status, .. } => agg.lock().unwrap().crashes.push((idx, status)),
    }
}

fn run_worker_capped(
    prop_id: &str,
    tier: Tier,
    from: u64,
    to: u64,
    step: bool,
    cap_mult: u64,
    agg: &Mutex<Agg>,
) -> WorkerEnd {
    let exe = std::env::current_exe().unwrap();
    let mut child = Command::new(exe)
        .env("VERIF_CAP_MULT", cap_mult.to_string())
        .arg("worker")
        .arg(prop_id)
        .arg(tier.name())
        .arg(from.to_string())
        .arg(to.to_string())
        .arg(if step { "step" } else { "fast" })
        .stdin(Stdio::null())
        .stdout(Stdio::piped())
        .stderr(Stdio::null())
        .spawn()
        .expect("spawn worker");
    let out = child.stdout.take().unwrap();
    let rd = BufReader::with_capacity(1 << 20, out);
    let mut next_unfinished = from;
    let mut last_begun = None;
    let mut done = false;
    let mut timeout = None;
    let mut recycle: Option<u64> = None;
    for line in rd.lines() {
        let Ok(line) = line else { break };
        if let Some(rest) = line.strip_prefix("C ") {
            match serde_json::from_str::<ChunkSummary>(rest) {
                Ok(s) => {
                    next_unfinished = s.to;
                    let mut a = agg.lock().unwrap();
                    a.n += s.n;
                    a.keys.extend(s.keys);
                    for (k, v) in s.outcomes {
                        *a.outcomes.entry(k).or_default() += v;
                    }
                    for (k, v) in s.counters {
                        *a.counters.entry(k).or_default() += v;
                    }
                    for (k, v) in s.matcher_hits {
                        let e = a.matcher_hits.entry(k).or_default();
                        e.0 += v.0;
                        e.1 += v.1;
                    }
                    a.failing_total += s.failing_total;
                    for (k, v) in s.clause_counts {
                        *a.clause_counts.entry(k).or_default() += v;
                    }
                    for (k, v) in s.known_counts {
                        let e = a.known_counts.entry(k).or_insert((0, v.1));
                        e.0 += v.0;
                    }
                    // cases with an unlisted failing clause are all counted; their descriptions are kept up to a cap
                    let room = 200_000usize.saturating_sub(a.failing.len());
                    // (when VERIF_DUMP_FAILS asks for every failing case, listed ones arrive here too: not counted)
                    if s.failing.len() > room && std::env::var("VERIF_DUMP_FAILS").is_err() {
                        a.unlisted_dropped += (s.failing.len() - room) as u64;
                    }
                    a.failing.extend(s.failing.into_iter().take(room));
                    if a.samples.len() < 6 {
                        a.samples.extend(s.samples);
                    }
                }
                Err(e) => {
                    agg.lock()
                        .unwrap()
                        .machinery
                        .push(format!("unparsable chunk line: {e}"));
                }
            }
        } else if let Some(rest) = line.strip_prefix("B ") {
            last_begun = rest.trim().parse().ok();
        } else if let Some(rest) = line.strip_prefix("T ") {
            timeout = rest.trim().parse().ok();
        } else if let Some(rest) = line.strip_prefix("R ") {
            recycle = rest.trim().parse().ok();
        } else if line == "D" {
            done = true;
        }
        // anything else: subject's own prints, ignored
    }
    let st = child.wait().expect("wait");
    if let Some(idx) = timeout {
        return WorkerEnd::Timeout { idx };
    }
    if done && st.success() {
        return WorkerEnd::Done;
    }
    if let Some(next) = recycle
        && st.success()
        && next == next_unfinished
    {
        return WorkerEnd::Recycle { next };
    }
    WorkerEnd::Died {
        status: format!("{st}"),
        last_begun,
        next_unfinished,
    }
}

/// Process one shard to completion, isolating crashing / hanging cases.
fn run_shard(prop: &dyn Prop, tier: Tier, mut from: u64, to: u64, agg: &Mutex<Agg>) {
    let chunk = prop.chunk(tier);
    while from < to {
        match run_worker(prop.id(), tier, from, to, false, agg) {
            WorkerEnd::Done => return,
            WorkerEnd::Recycle { next } => from = next,
            WorkerEnd::Timeout { idx } => {
                confirm_timeout(prop, tier, idx, agg);
                // the chunk containing idx was not reported: redo its head in step mode
                let cstart = from + ((idx - from) / chunk) * chunk;
                if cstart < idx {
                    step_range(prop, tier, cstart, idx, agg);
                }
                from = idx + 1;
                // finish the rest of that chunk in step mode to keep chunk alignment simple
                let cend = (cstart + chunk).min(to);
                if from < cend {
                    step_range(prop, tier, from, cend, agg);
                }
                from = cend.max(from);
            }
            WorkerEnd::Died {
                status,
                next_unfinished,
                ..
            } => {
                // the chunk [next_unfinished, next_unfinished+chunk) contains the culprit
                let cend = (next_unfinished + chunk).min(to);
                let before = agg.lock().unwrap().crashes.len();
                step_range(prop, tier, next_unfinished, cend, agg);
                let after = agg.lock().unwrap().crashes.len();
                if before == after {
                    agg.lock().unwrap().machinery.push(format!(
                        "worker died ({status}) in chunk {next_unfinished}..{cend} but no single case reproduces it"
                    ));
                }
                from = cend;
            }
        }
    }
}

/// Run [from,to) one case at a time, recording the case that kills the worker.
fn step_range(prop: &dyn Prop, tier: Tier, mut from: u64, to: u64, agg: &Mutex<Agg>) {
    while from < to {
        match run_worker(prop.id(), tier, from, to, true, agg) {
            WorkerEnd::Done => return,
            WorkerEnd::Recycle { next } => from = next,
            WorkerEnd::Timeout { idx } => {
                confirm_timeout(prop, tier, idx, agg);
                from = idx + 1;
            }
            WorkerEnd::Died {
                status,
                last_begun,
                next_unfinished,
            } => {
                let idx = last_begun.unwrap_or(next_unfinished).max(next_unfinished);
                agg.lock().unwrap().crashes.push((idx, status));
                from = idx + 1;
            }
        }
    }
}

/// Run a single case in a fresh process and return what the oracle saw.
pub fn run_single(prop: &dyn Prop, tier: Tier, idx: u64) -> (Vec<Fail>, Value, Vec<String>) {
    let agg = Mutex::new(new_agg());
    step_range(prop, tier, idx, idx + 1, &agg);
    let a = agg.into_inner().unwrap();
    if let Some((_, st)) = a.crashes.first() {
        return (
            vec![Fail {
                clause: prop.crash_clause().into(),
                detail: st.clone(),
            }],
            json!({"idx": idx}),
            vec![],
        );
    }
    match a.failing.into_iter().next() {
        Some((_, o)) => (o.fails, o.repr, o.tags),
        None => (vec![], a.samples.first().map(|s| s.1.clone()).unwrap_or(Value::Null), vec![]),
    }
}

fn new_agg() -> Agg {
    Agg {
        failing_total: 0,
        clause_counts: BTreeMap::new(),
        known_counts: BTreeMap::new(),
        unlisted_dropped: 0,
        n: 0,
        keys: HashSet::new(),
        outcomes: BTreeMap::new(),
        counters: BTreeMap::new(),
        failing: vec![],
        samples: vec![],
        crashes: vec![],
        matcher_hits: BTreeMap::new(),
        machinery: vec![],
    }
}

pub fn driver_main(prop: Arc<dyn Prop>, tier: Tier) -> i32 {
    let t0 = Instant::now();
    let id = prop.id();
    let n = prop.n_cases(tier);
    let seed: i64 = std::env::var("VERIF_SEED")
        .ok()
        .and_then(|s| s.parse().ok())
        .unwrap_or(0);
    let jobs: u64 = std::env::var("VERIF_JOBS")
        .ok()
        .and_then(|s| s.parse().ok())
        .unwrap_or(16);
    let chunk = prop.chunk(tier);
    // shards: contiguous, chunk-aligned, at most recycle_after cases each
    let spj = prop.shards_per_job().max(1);
    let per = ((n + jobs * spj - 1) / (jobs * spj)).max(chunk);
    let per = ((per + chunk - 1) / chunk * chunk).min(prop.recycle_after().max(chunk));
    let mut shards: Vec<(u64, u64)> = vec![];
    let mut a = 0;
    while a < n {
        let b = (a + per).min(n);
        shards.push((a, b));
        a = b;
    }
    if prop.expensive_cases_last() {
        shards.reverse();
    }
    // VERIF_SEED only rotates the order in which shards are started
    if !shards.is_empty() {
        let r = (seed.unsigned_abs() as usize) % shards.len();
        shards.rotate_left(r);
    }
    let queue = Mutex::new(shards.into_iter().collect::<std::collections::VecDeque<_>>());
    let agg = Mutex::new(new_agg());
    std::thread::scope(|sc| {
        for _ in 0..jobs {
            sc.spawn(|| {
                loop {
                    let sh = queue.lock().unwrap().pop_front();
                    let Some((f, t)) = sh else { break };
                    run_shard(prop.as_ref(), tier, f, t, &agg);
                }
            });
        }
    });
    let mut agg = agg.into_inner().unwrap();
    let known = load_known();
    let descr = prop.describe(tier);

    // crashes become failing cases
    let crashes = std::mem::take(&mut agg.crashes);
    for (idx, st) in &crashes {
        // fetch repr/tags of the crashing case cheaply: the enumerator is pure, so ask a
        // worker for the case description only
        let (repr, tags) = describe_case(id, tier, *idx);
        agg.failing.push((
            *idx,
            CaseOut {
                key: *idx,
                nontrivial: true,
                outcome: "__process_crash".into(),
                fails: vec![Fail {
                    clause: prop.crash_clause().into(),
                    detail: st.clone(),
                }],
                tags,
                repr,
                counters: vec![],
            },
        ));
        *agg.outcomes.entry("crash".into()).or_default() += 1;
        agg.n += 1;
    }
    agg.failing.sort_by_key(|f| f.0);

    if let Ok(p) = std::env::var("VERIF_DUMP_FAILS") {
        let mut o = String::new();
        for (idx, out) in &agg.failing {
            o.push_str(&serde_json::to_string(&json!({"idx": idx, "case": out.repr, "tags": out.tags, "fails": out.fails})).unwrap());
            o.push('\n');
        }
        let _ = std::fs::write(p, o);
    }
    // classify. Workers have already counted every failing clause and every clause covered by an open known
    // finding; only cases with an unlisted clause (and crashes, which the driver adds) reach this point in full.
    let mut clause_counts: BTreeMap<String, u64> = agg.clause_counts.clone();
    let mut known_hits: BTreeMap<String, (u64, Value)> = agg.known_counts.clone();
    let mut violations: Vec<(u64, CaseOut, Vec<Fail>)> = vec![];
    let mut harness_panics = 0u64;
    for (idx, out) in &agg.failing {
        let from_driver = out.outcome == "__process_crash";
        let mut unknown = vec![];
        for f in &out.fails {
            if from_driver {
                *clause_counts.entry(f.clause.clone()).or_default() += 1;
            }
            if f.clause == "harness_panic" {
                harness_panics += 1;
                agg.machinery
                    .push(format!("harness panic on case {idx}: {}", f.detail));
                continue;
            }
            let m = known.iter().find(|k| {
                k.property == id && k.is_open() && k.clause_matches(&f.clause) && k.tags_match(&out.tags)
            });
            match m {
                Some(k) => {
                    if from_driver {
                        let e = known_hits
                            .entry(k.id.clone())
                            .or_insert((0, out.repr.clone()));
                        e.0 += 1;
                    }
                }
                None => unknown.push(f.clone()),
            }
        }
        if !unknown.is_empty() {
            violations.push((*idx, out.clone(), unknown));
        }
    }
    let failing_total = agg.failing_total + crashes.len() as u64;
    let unlisted_total = violations.len() as u64 + agg.unlisted_dropped;
    let _ = harness_panics;

    // confirm the first few violations in fresh processes (determinism of the verdict)
    let mut confirmed: Vec<(u64, CaseOut, Vec<Fail>)> = vec![];
    let mut nondet = 0u64;
    for (idx, out, unk) in violations.iter().take(5) {
        let (f1, _, _) = run_single(prop.as_ref(), tier, *idx);
        let (f2, _, _) = run_single(prop.as_ref(), tier, *idx);
        let c1: Vec<&str> = f1.iter().map(|f| f.clause.as_str()).collect();
        let c2: Vec<&str> = f2.iter().map(|f| f.clause.as_str()).collect();
        if c1 != c2 || !unk.iter().all(|u| c1.contains(&u.clause.as_str())) {
            nondet += 1;
            let mut o = out.clone();
            o.fails.push(Fail {
                clause: "nondeterministic_verdict".into(),
                detail: format!("replay1={c1:?} replay2={c2:?}"),
            });
            confirmed.push((*idx, o, unk.clone()));
        } else {
            confirmed.push((*idx, out.clone(), unk.clone()));
        }
    }

    // vacuity
    let mut vac = prop.vacuity(tier, &agg.counters);
    if agg.n != n {
        vac.push(format!("evaluated {} cases but the space has {}", agg.n, n));
    }
    if agg.outcomes.len() < prop.min_outcomes() {
        vac.push(format!(
            "only {} distinct outcome classes observed ({:?})",
            agg.outcomes.len(),
            agg.outcomes.keys().collect::<Vec<_>>()
        ));
    }
    if agg.keys.len() < 2 {
        vac.push("fewer than 2 distinct non-trivial cases".into());
    }

    // replay files
    let root = verif_root();
    let rdir = root.join("replays").join(id);
    let _ = std::fs::create_dir_all(&rdir);
    // stale replay files of this tier belong to earlier runs
    if let Ok(rd) = std::fs::read_dir(&rdir) {
        for e in rd.flatten() {
            if e.file_name().to_string_lossy().starts_with(&format!("{}-", tier.name())) {
                let _ = std::fs::remove_file(e.path());
            }
        }
    }
    let mut viol_lines = vec![];
    for (idx, out, unk) in &confirmed {
        let path = rdir.join(format!("{}-{}.json", tier.name(), idx));
        let body = json!({
            "property": id, "tier": tier.name(), "idx": idx,
            "case": out.repr, "tags": out.tags,
            "failing_clauses": unk, "all_fails": out.fails,
        });
        let _ = std::fs::write(&path, serde_json::to_string_pretty(&body).unwrap());
        viol_lines.push(format!("VIOLATION property={id} replay={}", path.display()));
    }

    // evidence
    let wall = t0.elapsed().as_secs_f64();
    let mut coverage = serde_json::Map::new();
    coverage.insert("evaluations".into(), json!(agg.n));
    coverage.insert("distinct_nontrivial".into(), json!(agg.keys.len()));
    coverage.insert("rule".into(), json!(descr.rule));
    coverage.insert(
        "samples".into(),
        Value::Array(
            agg.samples
                .iter()
                .take(4)
                .map(|(i, v)| json!({"idx": i, "case": v}))
                .collect(),
        ),
    );
    coverage.insert("exhaustive".into(), json!(agg.n == n && agg.machinery.is_empty()));
    coverage.insert("shape".into(), json!(descr.shape));
    coverage.insert("bounds".into(), descr.bounds.clone());
    coverage.insert("space_size".into(), json!(n));
    coverage.insert("outcome_classes".into(), json!(agg.outcomes));
    coverage.insert("counters".into(), json!(agg.counters));
    if let (Some(s), Some(t)) = (agg.counters.get("states"), agg.counters.get("transitions")) {
        coverage.insert("states".into(), json!(s));
        coverage.insert("transitions".into(), json!(t));
        coverage.insert(
            "traces_validated_against_impl".into(),
            json!(agg.counters.get("traces").copied().unwrap_or(agg.n)),
        );
    }
    coverage.insert(
        "worker_crashes_isolated".into(),
        json!(crashes.iter().map(|c| json!({"idx": c.0, "status": c.1})).collect::<Vec<_>>()),
    );
    coverage.insert(
        "known_findings_matched".into(),
        json!(known_hits.iter().map(|(k, v)| json!({"id": k, "cases": v.0})).collect::<Vec<_>>()),
    );
    coverage.insert(
        "known_finding_matchers".into(),
        json!(agg.matcher_hits.iter().map(|(k, v)| json!({"id": k, "cases_matching_tags": v.0, "of_which_fail_with_signature": v.1})).collect::<Vec<_>>()),
    );
    coverage.insert("failing_cases_total".into(), json!(failing_total));
    coverage.insert("failing_clause_counts".into(), json!(clause_counts));
    coverage.insert("unlisted_failing_cases".into(), json!(unlisted_total));
    coverage.insert("nondeterministic_verdicts".into(), json!(nondet));
    coverage.insert("machinery_issues".into(), json!(agg.machinery));
    coverage.insert("vacuity_issues".into(), json!(vac));
    let ev = json!({
        "property_id": id,
        "tier": tier.name(),
        "seed": seed,
        "level": "model_checking",
        "coverage": Value::Object(coverage),
        "assumptions": descr.assumptions,
        "wall_s": wall,
        "violations": unlisted_total,
    });
    let edir = root.join("evidence");
    let _ = std::fs::create_dir_all(&edir);
    // VERIF_EVIDENCE_SUFFIX: secondary passes (e.g. the AddressSanitizer replay of C19) keep their own file
    let epath = edir.join(format!("{id}{}.json", std::env::var("VERIF_EVIDENCE_SUFFIX").unwrap_or_default()));
    if let Err(e) = std::fs::write(&epath, serde_json::to_string_pretty(&ev).unwrap()) {
        eprintln!("machinery: cannot write evidence {epath:?}: {e}");
        return 2;
    }
    // a thorough run additionally keeps its own file, so that a later quick run does not erase what it covered
    if tier == Tier::Thorough && std::env::var("VERIF_EVIDENCE_SUFFIX").is_err() {
        let _ = std::fs::write(edir.join(format!("{id}-thorough.json")), serde_json::to_string_pretty(&ev).unwrap());
    }

    // report
    println!(
        "{id} tier={} cases={} distinct_nontrivial={} outcomes={} failing={} known={} unlisted={} wall={:.1}s",
        tier.name(),
        agg.n,
        agg.keys.len(),
        agg.outcomes.len(),
        failing_total,
        known_hits.values().map(|v| v.0).sum::<u64>(),
        unlisted_total,
        wall
    );
    if !clause_counts.is_empty() {
        println!("  failing clauses: {clause_counts:?}");
    }
    for (kid, (cnt, _)) in &known_hits {
        let k = known.iter().find(|k| &k.id == kid).unwrap();
        println!("KNOWN-FINDING: property={id} {} [{}; {} cases in this run]", k.what, k.id, cnt);
    }
    for l in &viol_lines {
        println!("{l}");
    }
    if !violations.is_empty() {
        for (idx, out, unk) in confirmed.iter().take(3) {
            println!("  case {idx}: {}", serde_json::to_string(&out.repr).unwrap_or_default().chars().take(600).collect::<String>());
            for f in unk.iter().take(4) {
                println!("    [{}] {}", f.clause, f.detail.chars().take(400).collect::<String>());
            }
        }
        return 1;
    }
    if !agg.machinery.is_empty() || !vac.is_empty() {
        for m in agg.machinery.iter().take(10) {
            eprintln!("machinery: {m}");
        }
        for m in &vac {
            eprintln!("vacuous: {m}");
        }
        return 2;
    }
    0
}

fn describe_case(id: &str, tier: Tier, idx: u64) -> (Value, Vec<String>) {
    let exe = std::env::current_exe().unwrap();
    let out = Command::new(exe)
        .arg("describe")
        .arg(id)
        .arg(tier.name())
        .arg(idx.to_string())
        .stderr(Stdio::null())
        .output();
    if let Ok(o) = out {
        if let Ok(v) = serde_json::from_slice::<Value>(&o.stdout) {
            let tags = v["tags"]
                .as_array()
                .map(|a| a.iter().filter_map(|t| t.as_str().map(String::from)).collect())
                .unwrap_or_default();
            return (v["case"].clone(), tags);
        }
    }
    (json!({"idx": idx}), vec![])
}

pub fn replay_main(prop: Arc<dyn Prop>, path: &str) -> i32 {
    let s = match std::fs::read_to_string(path) {
        Ok(s) => s,
        Err(e) => {
            eprintln!("cannot read {path}: {e}");
            return 2;
        }
    };
    let v: Value = serde_json::from_str(&s).unwrap();
    let tier = Tier::parse(v["tier"].as_str().unwrap_or("quick"));
    let idx = v["idx"].as_u64().unwrap();
    let (fails, repr, _) = run_single(prop.as_ref(), tier, idx);
    println!("replay {} case {idx}: {}", prop.id(), serde_json::to_string_pretty(&repr).unwrap());
    if fails.is_empty() {
        println!("oracle: no failure");
        0
    } else {
        for f in &fails {
            println!("[{}] {}", f.clause, f.detail);
        }
        println!("VIOLATION property={} replay={path}", prop.id());
        1
    }
}
