//! Source files that the subject reads through `include("..")` / `mod name;`: written by the harness at run time
//! into `$VERIF_ROOT/target/inc/` (idempotent, atomic per file), referred to by absolute path from case texts
//! through the placeholder `@INC@`.

use std::path::PathBuf;
use std::sync::OnceLock;

pub fn dir() -> PathBuf {
    let root = std::env::var("VERIF_ROOT").unwrap_or_else(|_| "/verif".into());
    PathBuf::from(root).join("target").join("inc")
}

fn files() -> Vec<(String, String)> {
    let mut v: Vec<(String, String)> = vec![];
    // a shared file that itself includes a larger one (C19: two jobs include it at the same time)
    v.push(("c19_shared.mmm".into(), "include(\"./c19_inner.mmm\")\nfn shared_gain(x) {\n  inner_f7(x) * 2.0\n}\n".into()));
    v.push(("c19_inner.mmm".into(), (0..40).map(|k| format!("fn inner_f{k}(x) {{\n  x + {k}.0\n}}\n")).collect::<String>()));
    // include cycles of length 2, 3 and 5
    for n in [2usize, 3, 5] {
        for i in 0..n {
            v.push((format!("cyc{n}_{i}.mmm"), format!("include(\"./cyc{n}_{}.mmm\")\nfn cyc{n}_f{i}(x) {{\n  x + {i}.0\n}}\n", (i + 1) % n)));
        }
    }
    // a cycle of external-file modules: mcyc_main -> mod mcyc_a -> mod mcyc_b -> mod mcyc_a
    v.push(("mcyc_main.mmm".into(), "mod mcyc_a;\nfn mcyc_entry(x) {\n  x\n}\n".into()));
    v.push(("mcyc_a.mmm".into(), "mod mcyc_b;\npub fn fa(x) {\n  x + 1.0\n}\n".into()));
    v.push(("mcyc_b.mmm".into(), "mod mcyc_a;\npub fn fb(x) {\n  x + 2.0\n}\n".into()));
    // not cyclic: a chain of 48 files, and a diamond (top includes left and right, both include base)
    for i in 0..48 {
        let inc = if i + 1 < 48 { format!("include(\"./chain_{}.mmm\")\n", i + 1) } else { String::new() };
        v.push((format!("chain_{i}.mmm"), format!("{inc}fn chain_f{i}(x) {{\n  x + {i}.0\n}}\n")));
    }
    v.push(("dia_top.mmm".into(), "include(\"./dia_left.mmm\")\ninclude(\"./dia_right.mmm\")\nfn dia_top(x) {\n  dia_l(x) + dia_r(x)\n}\n".into()));
    v.push(("dia_left.mmm".into(), "include(\"./dia_base.mmm\")\nfn dia_l(x) {\n  dia_b(x) + 10.0\n}\n".into()));
    v.push(("dia_right.mmm".into(), "include(\"./dia_base.mmm\")\nfn dia_r(x) {\n  dia_b(x) + 100.0\n}\n".into()));
    v.push(("dia_base.mmm".into(), "fn dia_b(x) {\n  x + 1.0\n}\n".into()));
    v
}

/// make sure every file exists with its expected content; returns the directory
pub fn ensure() -> PathBuf {
    static DONE: OnceLock<PathBuf> = OnceLock::new();
    DONE.get_or_init(|| {
        let d = dir();
        std::fs::create_dir_all(&d).expect("create include dir");
        for (name, content) in files() {
            let p = d.join(&name);
            if std::fs::read_to_string(&p).ok().as_deref() == Some(content.as_str()) {
                continue;
            }
            let tmp = d.join(format!(".{name}.{}.tmp", std::process::id()));
            std::fs::write(&tmp, &content).expect("write include file");
            std::fs::rename(&tmp, &p).expect("rename include file");
        }
        d
    })
    .clone()
}

/// replace the placeholder `@INC@` by the include directory (creating the files first)
pub fn subst(text: &str) -> String {
    if text.contains("@INC@") { text.replace("@INC@", &ensure().to_string_lossy()) } else { text.to_string() }
}
