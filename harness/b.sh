#!/bin/bash
# build helper: show only errors and warnings that concern the harness crate
cd /verif/harness
CARGO_NET_OFFLINE=true cargo build --profile verif --message-format short 2>&1 | grep -E "^(mmv/|error|/verif)|Finished|panicked" | grep -v "^/repo" | head -${1:-60}
exit ${PIPESTATUS[0]}
